from datetime import datetime
from labella.d3_time import d3_time
from labella.scale import TimeScale
print(d3_time['hour'].floor(datetime(2020,1,1,10,15)), d3_time['week'].floor(datetime(2021,3,16,10,15)), d3_time['week'].offset(datetime(2021,3,7),1))
s=TimeScale().domain([datetime(2021,3,13,22),datetime(2021,3,14,9)]).range([0,100])
print(s(datetime(2021,3,14,3,30)), [str(t) for t in s.ticks(5)])
print(s.nice().domain())
