import time, math, sys
from datetime import datetime, timedelta
import labella.d3_time as D
from labella import scale as S
# simulate the planned fixes (probe only)
D.d3_time['day']._step=lambda date,off: date+timedelta(days=off)
orig=S.d3TimeScaleMilliseconds.range
def msrange(self,start,stop,step):
    step=max(1,int(round(step))); return orig(self,start,stop,step)
S.d3TimeScaleMilliseconds.range=msrange
from labella.scale import TimeScale
from collections import Counter
errs=Counter(); ex={}
spans=[1,2,3,5,7,8,9,10,15,40,100,999,1000,1500,7000,45000,60000,3e5,3e6,36e5,3*36e5,11*36e5,864e5,1.5*864e5,3*864e5,6*864e5,10*864e5,20*864e5,28*864e5,29*864e5,30*864e5,31*864e5,45*864e5,100*864e5,200*864e5,366*864e5,800*864e5,2000*864e5,5000*864e5,20000*864e5,60000*864e5,91000*864e5]
def cls(g):
    if g<1: return 'ms'
    if g<60: return 's'
    if g<3600: return 'min'
    if g<86400: return 'h'
    if g<28*86400: return 'd'
    if g<365*86400: return 'mon'
    return 'y'
def onb(t,c):
    if c=='ms': return True
    ok=t.microsecond==0
    if c in('min','h','d','mon','y'): ok&=t.second==0
    if c in('h','d','mon','y'): ok&=t.minute==0
    if c in('d','mon','y'): ok&=t.hour==0
    if c in('mon','y'): ok&=t.day==1
    if c=='y': ok&=t.month==1
    return ok
n=0;t0=time.time()
day=datetime(2019,1,1)
while day<datetime(2021,1,1):
  if day.day>=27 or day.day<=2 or day.isoweekday()==7:
   for tod in (timedelta(0),timedelta(hours=13,minutes=30,seconds=15,milliseconds=250)):
    st=day+tod
    for sp in spans:
      en=st+timedelta(milliseconds=sp)
      if en.year>2200: continue
      for m in (2,3,5,10,17,50):
        n+=1
        s=TimeScale().domain([st,en])
        def bad(k,info=None): errs[k]+=1; ex.setdefault(k,(st,sp,m,info))
        try: tk=s.ticks(m)
        except Exception as e: bad('EXC '+type(e).__name__,str(e)); continue
        if any(not y>x for x,y in zip(tk,tk[1:])): bad('mono',tk[:4])
        if tk and (tk[0]<st-timedelta(milliseconds=1) or tk[-1]>en+timedelta(milliseconds=1)): bad('indom',(tk[0],tk[-1]))
        if len(tk)>=2:
            gaps=[(y-x).total_seconds() for x,y in zip(tk,tk[1:])]
            if max(gaps)>2*min(gaps)+1e-9: bad('gapratio',(min(gaps),max(gaps),[str(x) for x in tk[:4]]))
            c=cls(min(gaps))
            if not all(onb(t,c) for t in tk): bad('boundary',(c,[str(x) for x in tk[:4]]))
        if sp>=m:
            if not (m/2.4-1 <= len(tk) <= 2.4*m+1): bad('count',len(tk))
        else:
            if not (sp <= len(tk) <= sp+1): bad('count-ms',(len(tk),[str(x) for x in tk[:4]]))
  day+=timedelta(days=1)
print(n,time.time()-t0)
for k,v in errs.items(): print(k,v,ex[k])
