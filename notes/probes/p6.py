import sys, time, collections, types
from labella.force import Force
from labella.node import Node
exec(open('p12b.py').read().split("DOM=")[0].split("from labella.scale import LinearScale")[1])
SETS=[ [(0,4),(10,4)], [(1,4),(1.5,4),(2,1)], [(0,4),(1,4),(1,4),(2.5,1),(6,4)], [(3,4),(3,4),(3,4),(3.5,1)] ]
CFG=[{'maxPos':10},{'maxPos':None},{'algorithm':'simple','maxPos':9},{'nodeSpacing':1.5,'stubWidth':2}]
OPS=[('N',i) for i in range(len(SETS))]+[('P','rev'),('P','rot'),('C',None)]+[('O',j) for j in range(len(CFG))]
def build(hist):
    f=Force(); nodes=[]; acc={}
    for op,a in hist:
        if op=='N': nodes=[Node(p,w) for p,w in SETS[a]]; f.nodes(nodes)
        elif op=='P':
            if nodes:
                nodes=list(reversed(nodes)) if a=='rev' else nodes[1:]+nodes[:1]; f.nodes(nodes)
        elif op=='C': f.compute()
        elif op=='O': f.set_options(dict(CFG[a])); acc.update(CFG[a])
    return f,nodes,acc
def result(nodes): return sorted((n.idealPos,n.width,n.layerIndex,n.currentPos) for n in nodes)
def reference(labels,acc):
    f=Force(dict(acc)); ns=[Node(p,w) for p,w in sorted(labels)]; f.nodes(ns); f.compute(); return result(ns)
D=int(sys.argv[1])
seen={fingerprint(build([]))}; frontier=collections.deque([[]]); trans=0; viol=None; t0=time.time(); checks=0
while frontier:
    h=frontier.popleft()
    if len(h)>=D: continue
    for op in OPS:
        nh=h+[op]
        f,nodes,acc=build(nh); trans+=1
        if op[0]=='C' and nodes:
            checks+=1
            ref=reference([(n.idealPos,n.width) for n in nodes],acc)
            if result(nodes)!=ref and viol is None: viol=(nh,result(nodes),ref)
        fp=fingerprint([f,nodes])
        if fp not in seen: seen.add(fp); frontier.append(nh)
print('depth',D,'states',len(seen),'transitions',trans,'computes checked',checks,'time',round(time.time()-t0,1),'viol',viol)
