import itertools, time, sys
from fractions import Fraction as F
exec(open('p5.py').read().split("n=int(sys.argv[1])")[0])

def dual_bound(d,w,s,cons,lam):
    # g(lam) = sum lam_c (g_c - a_c.d) - sum_i (sum_c lam_c a_ci)^2/(4 w_i) ; valid lower bound for any lam>=0
    n=len(d); r=[F(0)]*n; lin=F(0)
    for (l,rr,g),lm in zip(cons,lam):
        if lm==0: continue
        r[rr]+=lm*s[rr]; r[l]-=lm*s[l]
        lin+=lm*(g-(s[rr]*d[rr]-s[l]*d[l]))
    return lin-sum(r[i]*r[i]/(4*w[i]) for i in range(n))

def certify(d,w,s,cons,x,tol_abs=F(1,10**4),tol_rel=F(1,10**6)):
    """x: impl positions (floats). returns (ok, reason)."""
    n=len(d); xq=[F(v) for v in x]
    for (l,r,g) in cons:
        if s[r]*xq[r]-s[l]*xq[l]-g < -F(1,10**6)*max(1,abs(g)): return False,'infeasible'
    cost=sum(w[i]*(xq[i]-d[i])**2 for i in range(n))
    T=[j for j,(l,r,g) in enumerate(cons) if s[r]*xq[r]-s[l]*xq[l]-g <= F(1,10**6)*max(1,abs(g))]
    resid=[2*w[i]*(xq[i]-d[i]) for i in range(n)]   # must equal sum lam_c a_ci
    # enumerate forests of T (subsets that are acyclic as undirected graphs), largest first
    best=None
    for k in range(min(len(T),n-1),-1,-1):
        for Fs in itertools.combinations(T,k):
            # acyclic check via union-find
            par=list(range(n)); ok=True
            def find(a):
                while par[a]!=a: par[a]=par[par[a]]; a=par[a]
                return a
            for j in Fs:
                l,r,g=cons[j]; a,b=find(l),find(r)
                if a==b: ok=False;break
                par[a]=b
            if not ok: continue
            # leaf peeling to solve lam on forest: stationarity resid_i = sum_c lam_c a_ci
            lam={j:None for j in Fs}; res=resid[:]; deg=[0]*n; inc=[[] for _ in range(n)]
            for j in Fs:
                l,r,g=cons[j]; inc[l].append(j); inc[r].append(j); deg[l]+=1; deg[r]+=1
            stack=[i for i in range(n) if deg[i]==1]
            while stack:
                i=stack.pop()
                if deg[i]!=1: continue
                j=[j for j in inc[i] if lam[j] is None][0]
                l,r,g=cons[j]
                a_i = s[r] if i==r else -s[l]
                lam[j]=res[i]/a_i
                o = l if i==r else r
                a_o = s[r] if o==r else -s[l]
                res[o]-=lam[j]*a_o; res[i]=0
                deg[i]-=1; deg[o]-=1
                if deg[o]==1: stack.append(o)
            lamv=[F(0)]*len(cons)
            for j,v in lam.items(): lamv[j]=max(v,F(0)) if v is not None else F(0)
            gb=dual_bound(d,w,s,cons,lamv)
            if cost-gb <= tol_abs+tol_rel*abs(cost): return True,'certified'
            if best is None or gb>best: best=gb
    return False,('gap',float(cost-best) if best is not None else None)

n=int(sys.argv[1])
D=[0,2] if n==4 else [0,1,3]
edges=[(i,j) for i in range(n) for j in range(i+1,n)]
G=[0,2]
Wts=[[1]*n, [1]*(n-1)+[100], [10**10]+[1]*(n-1), [F(1,100)]+[1]*(n-1)]
t0=time.time(); cnt=0; bad=0
for k in range(0,len(edges)+1):
  for es in itertools.combinations(edges,k):
    for gs in itertools.product(G,repeat=k):
      cons=[(l,r,F(g)) for (l,r),g in zip(es,gs)]
      for d in itertools.product(D,repeat=n):
        for w in Wts:
          s=[F(1)]*n
          x,cost,uns=run_impl(d,w,s,cons)
          ok,why=certify([F(v) for v in d],[F(v) for v in w],s,cons,x)
          cnt+=1
          if not ok:
            bad+=1
            if bad<10: print('BAD',d,w,cons,x,why)
print(cnt,bad,time.time()-t0, (time.time()-t0)/cnt*1e3,'ms each')
