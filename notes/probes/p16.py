import time, math
from datetime import datetime, timedelta
from labella.scale import TimeScale
from collections import Counter
starts=[datetime(2019,12,31,23,59,59,999000), datetime(2020,1,29,13,30), datetime(2020,2,28,22,0,0,500000), datetime(2021,3,14,1,30), datetime(1999,12,30), datetime(2020,6,15,12,0,0), datetime(1900,3,1), datetime(2024,2,29,0,0,0)]
spans_ms=[1,2,3,5,7,8,9,10,15,40,100,999,1000,1500,7000,45000,60000,5*60000,50*60000,3600e3,3*3600e3,11*3600e3,86400e3,1.5*86400e3,3*86400e3,6*86400e3,10*86400e3,20*86400e3,31*86400e3,45*86400e3,100*86400e3,200*86400e3,366*86400e3,800*86400e3,2000*86400e3,5000*86400e3,20000*86400e3,60000*86400e3]
errs=Counter(); ex={}
n=0;t0=time.time()
for st in starts:
  for sp in spans_ms:
    en=st+timedelta(milliseconds=sp)
    if en.year>2200: continue
    for m in [2,3,5,7,10,20,50]:
      for dom in ([st,en],[en,st]):
        n+=1
        s=TimeScale().domain(dom)
        def bad(k,info=None): errs[k]+=1; ex.setdefault(k,(st,sp,m,info))
        try: tk=s.ticks(m)
        except Exception as e: bad('EXC '+type(e).__name__,str(e)); continue
        if any(not y>x for x,y in zip(tk,tk[1:])): bad('mono',tk[:4])
        if tk and (tk[0]<st-timedelta(milliseconds=1) or tk[-1]>en+timedelta(milliseconds=1)): bad('indom',(tk[0],tk[-1]))
        if len(tk)>=3:
            gaps=[(y-x).total_seconds() for x,y in zip(tk,tk[1:])]
            if max(gaps)>2*min(gaps)+1e-9: bad('gapratio',(min(gaps),max(gaps),tk[:3]))
        if sp>=m:
            if not (m/2.4-1 <= len(tk) <= 2.4*m+1): bad('count',len(tk))
        else:
            if not (sp <= len(tk) <= sp+1): bad('count-ms',len(tk))
print(n,time.time()-t0)
for k,v in errs.items(): print(k,v,ex[k])
