import sys, time, types, collections
from labella.scale import LinearScale
def fingerprint(roots):
    memo={}; out=[]
    def walk(o):
        if isinstance(o,(int,float,str,bool,type(None))): out.append(repr(o)); return
        oid=id(o)
        if oid in memo: out.append('@%d'%memo[oid]); return
        memo[oid]=len(memo)
        if isinstance(o,(list,tuple)):
            out.append('['+type(o).__name__); [walk(x) for x in o]; out.append(']')
        elif isinstance(o,dict):
            out.append('{'); 
            for k in sorted(o,key=repr): out.append(repr(k)); walk(o[k])
            out.append('}')
        elif isinstance(o,types.FunctionType):
            out.append('F:%s:%d'%(o.__code__.co_name,o.__code__.co_firstlineno))
            for c in (o.__closure__ or ()): walk(c.cell_contents)
        elif hasattr(o,'__dict__'):
            out.append('O:'+type(o).__name__); walk(o.__dict__)
        else: out.append('?'+type(o).__name__)
    walk(roots); return '|'.join(out)
DOM=[[0,1],[10,-10],[0.13,9.7]]; RNG=[[0,1],[100,0],[-5,5]]
OPS=[('domain',d) for d in DOM]+[('range',r) for r in RNG]+[('clamp',True),('clamp',False),('nice',None),('nice',3),('copy',None)]
def build(hist):
    pool=[LinearScale()]
    for (i,op,arg) in hist:
        s=pool[i]
        if op=='domain': s.domain(list(arg))
        elif op=='range': s.range(list(arg))
        elif op=='clamp': s.clamp(arg)
        elif op=='nice': s.nice(arg)
        elif op=='copy': pool.append(s.copy())
    return pool
def obs(s):
    d=s.domain(); r=s.range()
    return (tuple(d),tuple(r),s.clamp(),tuple(round(s(x),9) for x in (-1,0,.5,1,3,9.7,20)))
def inv(pool):
    for k,s in enumerate(pool):
        d=s.domain(); r=s.range()
        if abs(s(d[0])-r[0])>1e-9*max(1,abs(r[0])) or abs(s(d[1])-r[1])>1e-9*max(1,abs(r[1])): return 'endpoints scale %d: dom %r -> %r,%r range %r'%(k,d,s(d[0]),s(d[1]),r)
D=int(sys.argv[1])
seen={fingerprint(build([]))}; frontier=collections.deque([[]]); trans=0; viol=None; t0=time.time()
while frontier:
    h=frontier.popleft()
    if len(h)>=D: continue
    pool=build(h)
    for i in range(len(pool)):
        for op,arg in OPS:
            if op=='copy' and len(pool)>=3: continue
            nh=h+[(i,op,arg)]
            before=[obs(s) for s in build(h)]
            np_=build(nh); trans+=1
            e=inv(np_)
            after=[obs(s) for s in np_]
            if e is None:
                for k in range(len(before)):
                    if k!=i and before[k]!=after[k]: e='scale %d changed by op on %d'%(k,i)
            if e and viol is None: viol=(nh,e)
            fp=fingerprint(np_)
            if fp not in seen: seen.add(fp); frontier.append(nh)
print('depth',D,'states',len(seen),'transitions',trans,'time',round(time.time()-t0,1),'first violation',viol)
