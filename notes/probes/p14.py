import time, math
from datetime import datetime, timedelta
from labella.scale import TimeScale, LinearScale, dt2milli
from collections import Counter
starts=[datetime(2019,12,31,23,59,59,999000), datetime(2020,1,29,13,30), datetime(2020,2,28,22,0,0,500000), datetime(2021,3,14,1,30), datetime(1999,12,30), datetime(2020,6,15,12,0,0), datetime(1900,3,1), datetime(2024,2,29,0,0,0), datetime(2021,5,5,5,5,5,5000)]
spans_ms=[10,15,40,100,999,1000,1500,7000,45000,60000,5*60000,50*60000,3600e3,3*3600e3,11*3600e3,86400e3,1.5*86400e3,3*86400e3,6*86400e3,10*86400e3,20*86400e3,31*86400e3,45*86400e3,100*86400e3,200*86400e3,366*86400e3,800*86400e3,2000*86400e3,5000*86400e3,20000*86400e3,60000*86400e3]
errs=Counter(); ex={}
n=0
for st in starts:
  for sp in spans_ms:
    en=st+timedelta(milliseconds=sp)
    if en.year>2200: continue
    for m in [None,2,5,10,20,50]:
      for dom in ([st,en],[en,st]):
        n+=1
        def bad(k,info=None): errs[k]+=1; ex.setdefault(k,(dom,m,info))
        try:
            s=TimeScale().domain(dom)
            ext=[dt2milli(st),dt2milli(en)]
            meth=s.tickMethod(ext, 10 if m is None else m)
            s.nice(m)
            nd=s.domain()
        except Exception as e: bad('EXC '+type(e).__name__,str(e)); continue
        lo,hi=(nd[0],nd[1]) if dom[0]<dom[1] else (nd[1],nd[0])
        if (nd[0]<nd[1])!=(dom[0]<dom[1]): bad('orient',nd)
        if lo>st or hi<en: bad('inward',nd)
        # step estimate
        iv,skip=meth
        name=[k for k in ('second','minute','hour','day','week','month','year') if __import__('labella.d3_time',fromlist=['d3_time']).d3_time[k] is iv]
        unit_ms={'second':1e3,'minute':6e4,'hour':36e5,'day':864e5,'week':6048e5,'month':31*864e5,'year':366*864e5}
        stepms = (unit_ms[name[0]] if name else 1)*max(skip,1)
        if (st-lo).total_seconds()*1000>=2*stepms or (hi-en).total_seconds()*1000>=2*stepms: bad('far',(nd,name,skip))
print(n)
for k,v in errs.items(): print(k,v,ex[k])
