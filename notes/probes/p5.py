import itertools, time, sys
from fractions import Fraction as F
from labella import vpsc

def solve_exact(d, w, s, cons):
    """min sum w_i (x_i-d_i)^2 s.t. s_r x_r - s_l x_l >= g. active-set enumeration, exact."""
    n=len(d); m=len(cons)
    best=None
    for mask in range(1<<m):
        A=[cons[j] for j in range(m) if mask>>j&1]
        # KKT system: 2 w_i (x_i - d_i) - sum_c lam_c a_ci = 0 ; a_c.x = g_c
        k=len(A); N=n+k
        M=[[F(0)]*(N+1) for _ in range(N)]
        for i in range(n):
            M[i][i]=2*w[i]; M[i][N]=2*w[i]*d[i]
        for j,(l,r,g) in enumerate(A):
            M[l][n+j]+= s[l]; M[r][n+j]-= s[r]   # -lam*a : a_l=-s_l, a_r=+s_r
            M[n+j][l]=-s[l]; M[n+j][r]=s[r]; M[n+j][N]=g
        # gaussian elimination
        sol=gauss(M,N)
        if sol is None: continue
        x=sol[:n]; lam=sol[n:]
        if any(v<0 for v in lam): continue
        if any(s[r]*x[r]-s[l]*x[l] < g for (l,r,g) in cons): continue
        cost=sum(w[i]*(x[i]-d[i])**2 for i in range(n))
        return x,cost
    return None

def gauss(M,N):
    M=[row[:] for row in M]
    for c in range(N):
        p=None
        for r in range(c,N):
            if M[r][c]!=0: p=r;break
        if p is None: return None
        M[c],M[p]=M[p],M[c]
        inv=1/M[c][c]
        M[c]=[v*inv for v in M[c]]
        for r in range(N):
            if r!=c and M[r][c]!=0:
                f=M[r][c]; M[r]=[a-f*b for a,b in zip(M[r],M[c])]
    return [M[i][N] for i in range(N)]

def run_impl(d,w,s,cons):
    vs=[vpsc.Variable(float(di),float(wi),float(si)) for di,wi,si in zip(d,w,s)]
    cs=[vpsc.Constraint(vs[l],vs[r],float(g)) for l,r,g in cons]
    sol=vpsc.Solver(vs,cs); cost=sol.solve()
    return [v.position() for v in vs], cost, [c.unsatisfiable for c in cs]

n=int(sys.argv[1])
D=[0,2]
edges=[(i,j) for i in range(n) for j in range(i+1,n)]
G=[0,2]
Wts=[[1]*n, [1]*(n-1)+[100], [100]+[1]*(n-1)]
t0=time.time(); cnt=0; bad=0
for k in range(0,len(edges)+1):
  for es in itertools.combinations(edges,k):
    for gs in itertools.product(G,repeat=k):
      cons=[(l,r,F(g)) for (l,r),g in zip(es,gs)]
      for d in itertools.product(D,repeat=n):
        for w in Wts:
          # also permute direction: use reversed var order to vary
          s=[1]*n
          x,cost,uns=run_impl(d,w,s,cons)
          ex=solve_exact([F(v) for v in d],[F(v) for v in w],[F(1)]*n,cons)
          cnt+=1
          ok = ex is not None and not any(uns) and all(abs(a-float(b))<1e-6 for a,b in zip(x,ex[0])) and abs(cost-float(ex[1]))<1e-6
          if not ok:
            bad+=1
            if bad<10: print('BAD',d,w,cons,x,cost,uns,ex and [float(v) for v in ex[0]])
print(cnt,bad,time.time()-t0)
