import datetime as dt, traceback
from labella.timeline import TimelineSVG, TimelineTex
from labella.scale import LinearScale, TimeScale
def tryit(name, f):
    try:
        r=f(); print(name,'OK', (r[:200] if isinstance(r,(str,bytes)) else r))
    except Exception as e:
        print(name,'EXC',type(e).__name__,e)
data=[{'time':1,'width':30,'text':'a'},{'time':2,'width':30},{'time':2.5,'width':30,'text':'<b>&é'}]
tryit('no options', lambda: TimelineSVG([dict(d) for d in data]).export())
tryit('empty options', lambda: TimelineSVG([dict(d) for d in data],options={}).export())
tryit('linear', lambda: TimelineSVG([dict(d) for d in data],options={'scale':LinearScale()}).export())
tryit('linear tex', lambda: TimelineTex([dict(d) for d in data],options={'scale':LinearScale()}).export())
tryit('single', lambda: TimelineSVG([dict(data[0])],options={'scale':LinearScale()}).export())
tryit('same time', lambda: TimelineSVG([dict(data[0]),dict(data[0])],options={'scale':LinearScale()}).export())
d2=[{'time':dt.datetime(2020,1,30,13,30),'width':30},{'time':dt.datetime(2020,2,2,1,0),'width':30}]
tryit('dt', lambda: TimelineSVG([dict(d) for d in d2],options={}).export())
d3=[{'time':dt.date(2020,1,30),'width':30},{'time':dt.date(2020,3,2),'width':30}]
tryit('date', lambda: TimelineSVG([dict(d) for d in d3],options={}).export())
d4=[{'time':dt.datetime(2020,1,30,13,30,0,1000),'width':30},{'time':dt.datetime(2020,1,30,13,30,0,9000),'width':30}]
tryit('ms', lambda: TimelineSVG([dict(d) for d in d4],options={}).export())
