import sys, time, importlib, copy, datetime as dt
def fresh():
    for k in [k for k in sys.modules if k=='labella' or k.startswith('labella.')]:
        del sys.modules[k]
    import labella.timeline as T, labella.scale as S
    return T,S
t0=time.time()
for i in range(50): T,S=fresh()
print('reload ms',(time.time()-t0)/50*1e3)
A=[{'time':dt.datetime(2020,1,d),'width':40} for d in (3,9,20)]
B=[{'time':dt.datetime(1990+y,5,5),'width':40} for y in (1,3,8)]
T,S=fresh()
a=T.TimelineSVG(copy.deepcopy(A),{'direction':'right'})
ref=a.export()
T,S=fresh()
a=T.TimelineSVG(copy.deepcopy(A),{'direction':'right'})
b=T.TimelineSVG(copy.deepcopy(B),{'direction':'up'})
out=a.export()
print('isolated?', out==ref)
print(T.DEFAULT_OPTIONS['labella'])
