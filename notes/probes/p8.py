import itertools, re, copy, time
from xml.etree import ElementTree as ET
from labella.timeline import TimelineSVG, TimelineTex
from labella.scale import LinearScale
from collections import Counter
def boxes(svg):
    root=ET.fromstring(svg)
    out=[]
    for g in root.iter('g'):
        if g.get('class')=='label-g':
            m=re.match(r'translate\((-?\d+), (-?\d+)\)',g.get('transform'))
            r=g.find('rect')
            out.append((int(m.group(1)),int(m.group(2)),float(r.get('width')),float(r.get('height'))))
    return out
errs=Counter(); ex={}
times=[0,1,1.5,4,9,10]
alpha=[(t,w,tx) for t in times for w in (20,55) for tx in (None,'ab')]
n=0;t0=time.time()
for k in (1,2,3):
  for ds in itertools.combinations_with_replacement(alpha,k):
    data=[{'time':t,'width':w,**({'text':tx} if tx else {})} for t,w,tx in ds]
    for direction in ('up','down','left','right'):
      for lab in ({}, {'maxPos':100}, {'maxPos':70,'algorithm':'simple'},{'nodeSpacing':5,'maxPos':120,'minPos':10}):
        for gap in (60,1):
          opts={'scale':LinearScale(),'direction':direction,'labella':dict(lab),'layerGap':gap,'initialWidth':200,'initialHeight':200,'domain':[0,10]}
          n+=1
          def bad(kk,info=None): errs[kk]+=1; ex.setdefault(kk,(ds,direction,lab,gap,info))
          try: svg=TimelineSVG(copy.deepcopy(data),opts).export()
          except Exception as e: bad('EXC '+type(e).__name__,str(e)); continue
          bs=boxes(svg)
          for (x,y,w,h) in bs:
              if direction=='right' and not x>=gap-1: bad('side',bs)
              if direction=='left' and not x+w<=-(gap-1): bad('side',bs)
              if direction=='down' and not y>=gap-1: bad('side',bs)
              if direction=='up' and not y+h<=-(gap-1): bad('side',bs)
          for a,b in itertools.combinations(bs,2):
              if a[0]<b[0]+b[2] and b[0]<a[0]+a[2] and a[1]<b[1]+b[3] and b[1]<a[1]+a[3]: bad('overlap',(a,b))
print(n,time.time()-t0)
for k,v in errs.items(): print(k,v,ex[k])
