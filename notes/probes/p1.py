import time, itertools, sys
from labella.force import Force
from labella.node import Node
t=time.time(); n=0
for pos in itertools.product(range(0,6), repeat=4):
    nodes=[Node(p*3, 4) for p in pos]
    f=Force({'maxPos':None}); f.nodes(nodes); f.compute(); n+=1
print(n, time.time()-t, (time.time()-t)/n*1e3,'ms each')
# multilayer
t=time.time(); n=0
for pos in itertools.product(range(0,6), repeat=4):
    nodes=[Node(p*3, 4) for p in pos]
    f=Force({'maxPos':12,'minPos':0}); f.nodes(nodes); f.compute(); n+=1
print(n, time.time()-t, (time.time()-t)/n*1e3,'ms each')
print([ (x.idealPos,x.currentPos,x.layerIndex) for x in nodes], f.getLayers())
