import itertools, re, copy, time
from xml.etree import ElementTree as ET
from labella.timeline import TimelineSVG
from labella.scale import LinearScale
from collections import Counter
def parse(svg):
    root=ET.fromstring(svg); R={'boxes':[],'dots':[],'links':[],'ticks':[]}
    for g in root.iter('g'):
        c=g.get('class')
        if c=='label-g':
            m=re.fullmatch(r'translate\((-?\d+), (-?\d+)\)',g.get('transform')); r=g.find('rect'); t=g.find('text')
            R['boxes'].append((int(m[1]),int(m[2]),float(r.get('width')),float(r.get('height')),None if t is None else t.text))
    for c in root.iter('circle'): R['dots'].append((float(c.get('cx',0)),float(c.get('cy',0))))
    for p in root.iter('path'):
        toks=p.get('d').split(); segs=[];i=0
        while i<len(toks):
            k={'M':2,'L':2,'C':6}[toks[i]]; segs.append((toks[i],[float(x) for x in toks[i+1:i+1+k]])); i+=1+k
        R['links'].append(segs)
    for l in root.iter('line'):
        if l.get('class')=='timeline': R['axis']=(float(l.get('x2',0)),float(l.get('y2',0)))
    return R
errs=Counter(); ex={}
times=[0,1,1.5,4,9,10]
alpha=[(t,w,tx) for t in times for w in (20,55) for tx in (None,'a<&>"é')]
n=0;t0=time.time()
for k in (1,2,3):
  for ds in itertools.combinations_with_replacement(alpha,k):
   for order in (ds, tuple(reversed(ds))):
    data=[{'time':t,'width':w,**({'text':tx} if tx else {})} for t,w,tx in order]
    for direction in ('up','down','left','right'):
      for lab in ({}, {'maxPos':100}, {'maxPos':70,'algorithm':'simple'},{'algorithm':'none'}):
          W,H,gap=(137,211,7)
          pad={'left':0,'right':5,'top':1,'bottom':7}
          opts={'scale':LinearScale(),'direction':direction,'labella':dict(lab),'layerGap':gap,'initialWidth':W,'initialHeight':H,'domain':[-1,11],'labelPadding':pad}
          n+=1
          def bad(kk,info=None): errs[kk]+=1; ex.setdefault(kk,(order,direction,lab,info))
          try: svg=TimelineSVG(copy.deepcopy(data),opts).export()
          except Exception as e: bad('EXC '+type(e).__name__,str(e)); continue
          R=parse(svg)
          horiz=direction in('up','down')
          L=(W-40) if horiz else (H-40)
          if not(len(R['boxes'])==len(R['dots'])==len(R['links'])==len(order)): bad('count'); continue
          if R['axis']!=((L,0) if horiz else (0,L)): bad('axis',R['axis'])
          f=lambda t: L*(t+1)/12
          exp=[(round(f(t),6),w,tx) for t,w,tx in order]
          got=[]
          for (dx,dy),(bx,by,bw,bh,bt),segs in zip(R['dots'],R['boxes'],R['links']):
              along,across=(dx,dy) if horiz else (dy,dx)
              if across!=0: bad('dot off axis')
              # link start
              if segs[0][0]!='M' or segs[0][1]!=[dx,dy]: bad('link start',(segs[0],(dx,dy)))
              # continuity trivially by M then C/L absolute; end point:
              end=segs[-1][1][-2:]
              if direction=='right': mid=(bx, by+bh/2)
              elif direction=='left': mid=(bx+bw, by+bh/2)
              elif direction=='down': mid=(bx+bw/2, by)
              else: mid=(bx+bw/2, by+bh)
              if abs(end[0]-mid[0])>1+1e-9 or abs(end[1]-mid[1])>1+1e-9: bad('link end',(end,mid,(bx,by,bw,bh)))
              alongsize=bw if horiz else bh
              got.append((round(along,6),alongsize,bt))
          # expected along-size
          def asz(w,tx):
              if horiz: return w+pad['left']+pad['right']
              return (13+pad['left']+pad['right']) if tx else (w+pad['left']+pad['right'])
          exp2=sorted(((p,asz(w,tx),tx) for p,w,tx in exp),key=repr)
          if sorted(got,key=repr)!=exp2: bad('triples',(sorted(got,key=repr),exp2))
print(n,time.time()-t0)
for k,v in errs.items(): print(k,v,ex[k])
