from labella.timeline import TimelineSVG, TimelineTex
from labella.scale import LinearScale
import copy
data=[{'time':1,'width':60,'text':'a&<é'},{'time':1.2,'width':60},{'time':1.4,'width':50,'text':'ccc'},{'time':3,'width':40}]
opts=lambda: {'scale':LinearScale(),'direction':'up','initialWidth':200,'initialHeight':150,'labella':{'maxPos':160},'dotColor':['#f00','#00ff00'],'domain':[0,4]}
s=TimelineSVG(copy.deepcopy(data),opts()).export().decode()
print(s.replace('><','>\n<'))
t=TimelineTex(copy.deepcopy(data),opts()).export()
print(t)
