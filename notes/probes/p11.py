import time, sys
from labella.force import Force
from labella.node import Node
for n in (150,200,230,240,245,250,300):
    nodes=[Node(100,4) for _ in range(n)]
    f=Force({'minPos':None}); f.nodes(nodes)
    t=time.time()
    try: f.compute(); print(n,'ok',round(time.time()-t,3))
    except RecursionError as e: print(n,'RecursionError')
print(sys.getrecursionlimit())
