import itertools
from datetime import datetime, timedelta
from fractions import Fraction as F
from labella.scale import TimeScale, LinearScale
E=datetime(1970,1,1)
ms=lambda t:(t-E)/timedelta(milliseconds=1)
pts=[datetime(1900,1,1),datetime(1969,12,31,23,59,59,999000),datetime(1970,1,1),datetime(2000,2,29,12),datetime(2038,1,19,3,14,7),datetime(2199,12,31,23,59,59,999000),datetime(2021,3,14,2,30),datetime(2020,6,15,12,0,0,1000)]
rngs=[[0,1],[0,360],[500,-500]]
worst=0;bad=0;n=0
for a,b in itertools.permutations(pts,2):
    for r in rngs:
        s=TimeScale().domain([a,b]).range(list(r))
        lin=LinearScale().domain([ms(a),ms(b)]).range(list(r))
        assert s.domain()==[a,b],(s.domain(),a,b)
        qs=[a,b]+[a+(b-a)*f for f in (0.1,0.25,0.5,0.75,0.999)]
        qs=[q.replace(microsecond=q.microsecond//1000*1000) for q in qs]
        for q in qs:
            n+=1
            y=s(q)
            if y!=lin(ms(q)): bad+=1; print('lin mismatch',a,b,r,q,y,lin(ms(q)))
            back=s.invert(y)
            d=abs((back-q)/timedelta(milliseconds=1))
            worst=max(worst,d)
print(n,bad,'worst invert err ms',worst)
