import itertools, time, sys, signal
from labella import vpsc
def run_impl(d,w,s,cons):
    vs=[vpsc.Variable(float(di),float(wi),float(si)) for di,wi,si in zip(d,w,s)]
    cs=[vpsc.Constraint(vs[l],vs[r],float(g)) for l,r,g in cons]
    sol=vpsc.Solver(vs,cs); cost=sol.solve()
    return vs,cs,cost
class TO(Exception): pass
def h(*a): raise TO()
signal.signal(signal.SIGALRM,h)
n=int(sys.argv[1])
edges=[(i,j) for i in range(n) for j in range(n) if i!=j]
D=[0,1,3]; G=[0,1,2]
cnt=bad=0; t0=time.time(); nuns=0
for k in range(1,min(len(edges),int(sys.argv[2]))+1):
  for es in itertools.combinations_with_replacement(edges,k):
    for gs in itertools.product(G,repeat=k):
      cons=[(l,r,g) for (l,r),g in zip(es,gs)]
      for d in itertools.product(D,repeat=n):
        cnt+=1
        signal.setitimer(signal.ITIMER_REAL,2)
        try:
            vs,cs,cost=run_impl(d,[1]*n,[1]*n,cons)
            signal.setitimer(signal.ITIMER_REAL,0)
            viol=[(c.left and vs.index(c.left),vs.index(c.right),c.gap) for c in cs if not c.unsatisfiable and c.right.position()-c.left.position()-c.gap < -1e-6]
            nuns+=any(c.unsatisfiable for c in cs)
            if viol:
                bad+=1
                if bad<8: print('VIOL',d,cons,[v.position() for v in vs],viol,[c.unsatisfiable for c in cs])
        except TO:
            bad+=1; print('TIMEOUT',d,cons)
        except Exception as e:
            signal.setitimer(signal.ITIMER_REAL,0)
            bad+=1
            if bad<8: print('EXC',type(e).__name__,e,d,cons)
print(cnt,bad,nuns,time.time()-t0)
