import itertools, time, sys
from fractions import Fraction as F
from labella.force import Force
from labella.node import Node

def pava(t, w):
    # weighted isotonic regression (nondecreasing), exact
    blocks=[]  # (sum_w, sum_wt, count)
    for ti,wi in zip(t,w):
        blocks.append([wi, wi*ti, 1])
        while len(blocks)>1 and blocks[-2][1]*blocks[-1][0] > blocks[-1][1]*blocks[-2][0]:
            b=blocks.pop(); blocks[-1][0]+=b[0]; blocks[-1][1]+=b[1]; blocks[-1][2]+=b[2]
    out=[]
    for sw,swt,c in blocks:
        out += [swt/sw]*c
    return out

def layers_of(nodes):
    L={}
    for n in nodes:
        cur=n
        while cur:
            L.setdefault(cur.layerIndex, [])
            if cur not in L[cur.layerIndex]: L[cur.layerIndex].append(cur)
            cur=cur.parent
    return L

def check(labels, opts):
    nodes=[Node(p,w) for p,w in labels]
    f=Force(opts); f.nodes(nodes); f.compute()
    sp=f.options['nodeSpacing']; lo=f.options['minPos']; hi=f.options['maxPos']
    # stub layerIndex: set by compute for all nodes in layers
    L=layers_of(nodes)
    errs=[]
    for k,items in sorted(L.items()):
        tgt=lambda n: (n.parent.currentPos if n.parent else n.idealPos)
        items=sorted(items,key=lambda n:(tgt(n), n.currentPos))
        # C01
        for a,b in zip(items,items[1:]):
            s = 2 if (a.isStub() and b.isStub()) else sp
            need=(a.width+b.width)/2+s
            if b.currentPos-a.currentPos < need-1-1e-9:
                errs.append(('C01',k,(tgt(a),a.width,a.currentPos),(tgt(b),b.width,b.currentPos),need))
        # C02 oracle
        t=[F(tgt(n)) for n in items]
        G=[F(0)]
        for a,b in zip(items,items[1:]):
            s = 2 if (a.isStub() and b.isStub()) else sp
            G.append(G[-1]+F(a.width+b.width)/2+s)
        y=pava([ti-gi for ti,gi in zip(t,G)],[1]*len(t))
        total=G[-1]+F(items[0].width)/2+F(items[-1].width)/2
        fits = True
        A=None;B=None
        if lo is not None: A=F(lo)+F(items[0].width)/2
        if hi is not None: B=F(hi)-F(items[-1].width)/2-G[-1]
        if A is not None and B is not None and A>B: fits=False
        if fits:
            y=[ (max(v,A) if A is not None else v) for v in y]
            y=[ (min(v,B) if B is not None else v) for v in y]
            x=[yi+gi for yi,gi in zip(y,G)]
            for n,xi in zip(items,x):
                if abs(n.currentPos-xi)>F(1,2)+F(1,10**6):
                    errs.append(('C02',k,(tgt(n),n.width,n.currentPos),float(xi)))
                if lo is not None and n.currentLeft()<lo-0.5-1e-6: errs.append(('C03lo',k,n.currentPos))
                if hi is not None and n.currentRight()>hi+0.5+1e-6: errs.append(('C03hi',k,n.currentPos))
    return errs, len(L)

P=[x/2 for x in range(0,13)]
W=[1,4]
alpha=[(p,w) for p in P for w in W]
configs=[{}, {'maxPos':10}, {'maxPos':14,'minPos':None}, {'minPos':2,'maxPos':12,'nodeSpacing':0}, {'maxPos':9,'algorithm':'simple'},{'maxPos':10,'density':0.5,'stubWidth':2},{'minPos':None}, {'maxPos':6,'minPos':1,'algorithm':'none'}]
t0=time.time(); n=0; bad=0; maxL=0
N=int(sys.argv[1])
for k in range(1,N+1):
    for labels in itertools.combinations_with_replacement(alpha,k):
        for c in configs:
            try:
                errs,nl=check(labels,c)
            except Exception as e:
                errs=[('EXC',repr(e))]; nl=0
            n+=1; maxL=max(maxL,nl)
            if errs:
                bad+=1
                if bad<=15: print(labels,c,errs[:2])
print(n,bad,maxL,time.time()-t0)
