import itertools, time, sys
from fractions import Fraction as F
sys.argv=['x','3']
exec(open('p5.py').read().split("n=int(sys.argv[1])")[0])
n=3
D=[0,1,3]; edges=[(i,j) for i in range(n) for j in range(i+1,n)]+[(2,0)]
G=[0,2]
S=[[1,1,1],[2,1,1],[1,F(1,2),1],[1,2,4],[F(1,2),1,2]]
Wts=[[1,1,1],[F(1,100),1,10**10],[10**10,1,1],[1,10**4,1]]
cnt=bad=0;t0=time.time()
for k in range(0,4):
  for es in itertools.combinations(edges,k):
    if (0,2) in es and (2,0) in es: continue
    if (2,0) in es and ((0,1) in es and (1,2) in es): continue
    for gs in itertools.product(G,repeat=k):
      cons=[(l,r,F(g)) for (l,r),g in zip(es,gs)]
      for d in itertools.product(D,repeat=n):
        for w in Wts:
          for s in S:
            x,cost,uns=run_impl(d,w,s,cons)
            ex=solve_exact([F(v) for v in d],[F(v) for v in w],[F(v) for v in s],cons)
            cnt+=1
            tol=1e-6
            ok = ex is not None and not any(uns) and all(abs(a-float(b))<1e-5 for a,b in zip(x,ex[0])) and abs(cost-float(ex[1]))<1e-4*max(1,float(ex[1]))
            if not ok:
                bad+=1
                if bad<10: print('BAD',d,w,s,cons,x,cost,uns,ex and [float(v) for v in ex[0]], ex and float(ex[1]))
print(cnt,bad,time.time()-t0)
