import itertools, sys
from fractions import Fraction as F
from labella.scale import LinearScale
vals=[0.0,1e-6,-1e-6,0.13,-0.13,1.0,-1.0,9.7,-9.7,360.0,-360.0,1e9,-1e9,123456.789,0.1+0.2]
eps=sys.float_info.epsilon
worst=0; n=0; bad=0; endbad=0
for a,b in itertools.permutations(vals,2):
    for r0,r1 in itertools.permutations(vals,2):
        s=LinearScale().domain([a,b]).range([r0,r1])
        if s(a)!=r0 or s(b)!=r1: endbad+=1
        qs=[a,b,(a+b)/2,a+(b-a)/3,a-2*(b-a),b+2*(b-a)]+vals[:7]
        for x in qs:
            n+=1
            t=(F(x)-F(a))/(F(b)-F(a)); ex=F(r0)*(1-t)+F(r1)*t
            got=s(x)
            tol=eps*(abs(r0)+abs(r1))*(1+abs(float(t)))
            err=abs(F(got)-ex)
            ratio=float(err)/tol if tol else (0 if err==0 else 1e9)
            if ratio>worst: worst=ratio; w=(a,b,r0,r1,x,got,float(ex))
            # invert roundtrip
print(n,'worst err / (eps*(|r0|+|r1|)*(1+|t|)) =',worst,w,'endpoint mismatches',endbad)
