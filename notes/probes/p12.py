from labella.scale import LinearScale, TimeScale
from datetime import datetime
s=LinearScale().domain([0.13,9.7]).range([0,100])
c=s.copy()
s.nice()
print('orig',s.domain(),s(s.domain()[0]),s(s.domain()[1]))
print('copy',c.domain(),c(c.domain()[0]),c(c.domain()[1]))
# ctor aliasing
dom=[1.0,2.0]; s2=LinearScale(dom,[0,1]); dom[1]=5.0; print(s2.domain(), s2(5.0))
r=[0,10]; s3=LinearScale().range(r); r[1]=20; print(s3.range(), s3(1))
t=TimeScale().domain([datetime(2020,1,1,3),datetime(2020,1,9,5)]).range([0,100]); c=t.copy(); t.nice(); print(t.domain(), c.domain(), c(c.domain()[0]), c(c.domain()[1]))
# degenerate
s=LinearScale().domain([1,1]).range([0,10]); 
try: print(s(1))
except Exception as e: print('EXC',e)
# clamp reverse range
s=LinearScale().domain([0,1]).range([10,0]).clamp(True); print(s(-1),s(2),s(.5), s.invert(20), s.invert(5))
s=LinearScale().domain([1,0]).range([0,10]).clamp(True); print(s(-1),s(2),s(.25))
