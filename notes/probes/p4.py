import itertools, time
from fractions import Fraction as F
from labella.distributor import Distributor
from labella.node import Node
from collections import Counter
P=[x/2 for x in range(0,13)]; W=[1,4,20]
alpha=[(p,w) for p in P for w in W]
errs=Counter(); ex={}; n=0; multi=0; emptytrail=0; amb=0
t0=time.time()
opts=[dict(layerWidth=lw,density=d,nodeSpacing=sp,stubWidth=sw,algorithm=al) for lw in (None,6,10,14,30) for d in (0.3,0.5,0.75,1.0) for sp in (0,1.5,3) for sw in (0,1,2) for al in ('overlap','simple','none')]
print(len(opts))
for k in (1,2,3):
  for labels in itertools.combinations_with_replacement(alpha,k):
    for o in opts:
      n+=1
      nodes=[Node(p,w,data=('d',i)) for i,(p,w) in enumerate(labels)]
      def bad(kk,info=None): errs[kk]+=1; ex.setdefault(kk,(labels,o,info))
      try: layers=Distributor(dict(o)).distribute(nodes)
      except Exception as e: bad('EXC '+type(e).__name__,str(e)); continue
      while layers and not layers[-1]: layers=layers[:-1]; emptytrail+=1
      if any(len(l)==0 for l in layers): bad('empty middle layer')
      if len(layers)>1: multi+=1
      ids=Counter(id(x) for l in layers for x in l)
      if any(v>1 for v in ids.values()): bad('dup')
      where={}
      for li,l in enumerate(layers):
          for x in l: where[id(x)]=li
      tot=0
      for nd in nodes:
          if id(nd) not in where: bad('lost label'); continue
          if nd.isStub(): bad('label is stub')
          kk=where[id(nd)]; cur=nd; j=kk
          while cur.parent is not None:
              st=cur.parent; j-=1; tot+=1
              if where.get(id(st))!=j: bad('stub layer',(kk,j)); break
              if st.child is not cur: bad('child link')
              if st.idealPos!=nd.idealPos or st.data is not nd.data or st.width!=o['stubWidth']: bad('stub fields')
              cur=st
          if j!=0: bad('chain length',(kk,j))
      if sum(len(l) for l in layers)!=len(nodes)+tot: bad('extra items')
      sp=o['nodeSpacing']
      req=sum(w for p,w in labels)+sp*(len(labels)-1)
      if o['algorithm']!='none':
        if o['layerWidth'] is None:
          if len(layers)!=1: bad('split without width')
        else:
          budget=o['density']*o['layerWidth']
          if abs(req-budget)<1e-9: amb+=1
          elif req<budget:
              if len(layers)!=1: bad('split though fits')
          elif o['algorithm']=='overlap' and len(labels)>=3:
              if len(layers)<2: bad('not split')
              for l in layers:
                  nl=sum(1 for x in l if not x.isStub())
                  wsum=sum(x.width for x in l)+sp*(len(l)-1)
                  if nl>2 and wsum>budget+1e-9: bad('over budget',(nl,wsum,budget))
print(n,multi,emptytrail,amb,time.time()-t0)
for k,v in errs.items(): print(k,v,ex[k])
