import itertools, time, sys
from labella import vpsc
from labella.force import Force
from labella.node import Node
cnt={'split':0,'splitBetween':0,'merge':0,'satisfy':0}
orig_split=vpsc.Block.split.__func__
def split(cls,c):
    cnt['split']+=1; return orig_split(cls,c)
vpsc.Block.split=classmethod(split)
osb=vpsc.Block.splitBetween
def sb(self,a,b): cnt['splitBetween']+=1; return osb(self,a,b)
vpsc.Block.splitBetween=sb
om=vpsc.Blocks.merge
def mg(self,c): cnt['merge']+=1; return om(self,c)
vpsc.Blocks.merge=mg
P=[x/2 for x in range(0,13)]
W=[1,4]
alpha=[(p,w) for p in P for w in W]
configs=[{}, {'maxPos':10}, {'maxPos':14,'minPos':None}, {'minPos':2,'maxPos':12,'nodeSpacing':0},{'minPos':None},{'maxPos':6,'minPos':1,'algorithm':'none'},{'maxPos':30,'minPos':3,'algorithm':'none'}]
first={}
t0=time.time()
for k in (3,4):
    for labels in itertools.combinations_with_replacement(alpha,k):
        for ci,c in enumerate(configs):
            b=dict(cnt)
            nodes=[Node(p,w) for p,w in labels]
            f=Force(c); f.nodes(nodes); f.compute()
            if cnt['split']>b['split'] and 'split' not in first: first['split']=(labels,c)
            if cnt['splitBetween']>b['splitBetween'] and 'sb' not in first: first['sb']=(labels,c)
print(cnt,first,time.time()-t0)
