import sys, unicodedata, re, time
from collections import Counter
from labella.tex import uni2tex
ACC={"`":0x300,"'":0x301,"^":0x302,'"':0x308,"H":0x30B,"~":0x303,"c":0x327,"k":0x328,"=":0x304,"b":0x331,".":0x307,"d":0x323,"r":0x30A,"u":0x306,"v":0x30C}
pat=re.compile(r'\\([`\'^"H~ck=b.druv])\{(.)\}',re.S)
def readback(s): return pat.sub(lambda m: m.group(2)+chr(ACC[m.group(1)]), s)
errs=Counter(); ex={}
t0=time.time(); n=0
for cp in range(0x110000):
    if 0xD800<=cp<=0xDFFF: continue
    c=chr(cp)
    for ctx in (c,'a'+c,c+'b','a'+c+'b'):
        n+=1
        try: out=uni2tex(ctx)
        except Exception as e:
            k='EXC '+type(e).__name__; errs[k]+=1; ex.setdefault(k,(hex(cp),repr(ctx),str(e))); continue
        if unicodedata.normalize('NFD',readback(out))!=unicodedata.normalize('NFD',ctx):
            errs['roundtrip']+=1; ex.setdefault('roundtrip',(hex(cp),repr(ctx),out))
        if ctx.isascii() and out!=ctx: errs['ascii']+=1
print(n,time.time()-t0)
for k,v in errs.items(): print(k,v,ex[k])
