import math, itertools, time
from fractions import Fraction as F
from labella.scale import LinearScale
from collections import Counter
mant=[1,1.5,2,2.5,3,3.5,5,7,7.5,9,9.99]
vals=sorted(set([0.0]+[s*m*10.0**e for m in mant for e in range(-6,10,3) for s in (1,-1)]))
print(len(vals))
errs=Counter(); ex={}
def step_ok(step):
    # step = {1,2,5} x 10^k
    k=math.floor(math.log10(step)+1e-9)
    for mu in (1,2,5):
        for kk in (k-1,k,k+1):
            if abs(step-mu*10.0**kk)<=1e-9*step: return True
    return False
t0=time.time(); n=0
for a,b in itertools.permutations(vals,2):
    span=abs(b-a)
    if not (1e-9<=span<=1e12) or span < 1e-6*max(abs(a),abs(b)): continue
    for m in list(range(1,101))+[None]:
        n+=1
        s=LinearScale().domain([a,b])
        try:
            tk=list(s.ticks(m))
            fmt=s.tickFormat(m)
        except Exception as e:
            errs['EXC '+type(e).__name__]+=1; ex.setdefault('EXC '+type(e).__name__,(a,b,m,str(e))); continue
        mm=10 if m is None else m
        lo,hi=min(a,b),max(a,b)
        def bad(k): errs[k]+=1; ex.setdefault(k,(a,b,m,tk[:5],len(tk)))
        if not (math.floor(0.57*mm) <= len(tk) <= 1.43*mm+1): bad('count')
        if len(tk)>=2:
            step=(tk[-1]-tk[0])/(len(tk)-1)
            if not step_ok(step): bad('step')
            if any(not (y>x) for x,y in zip(tk,tk[1:])): bad('mono')
            if any(abs((y-x)-step)>1e-6*step for x,y in zip(tk,tk[1:])): bad('even')
            if any(abs(x/step-round(x/step))>1e-6*max(1,abs(x/step)) for x in tk): bad('mult')
            eps=1e-9*step
            if tk[0]<lo-eps or tk[-1]>hi+eps: bad('indom')
            if tk[0]-step>=lo+1e-6*step or tk[-1]+step<=hi-1e-6*step: bad('complete')
            txt=[fmt(x) for x in tk]
            if len(set(txt))!=len(txt): bad('fmt-distinct')
            if any(abs(float(t)-x)>1e-3*step for t,x in zip(txt,tk)): bad('fmt-readback')
print(n,time.time()-t0)
for k,v in errs.items(): print(k,v,ex[k])
