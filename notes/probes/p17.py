import time, calendar
from datetime import datetime, timedelta
from labella.d3_time import d3_time
from collections import Counter
def o_floor(u,t):
    if u=='second': return t.replace(microsecond=0)
    if u=='minute': return t.replace(second=0,microsecond=0)
    if u=='hour': return t.replace(minute=0,second=0,microsecond=0)
    d=datetime(t.year,t.month,t.day)
    if u=='day': return d
    if u=='week': return d-timedelta(days=(d.isoweekday()%7))
    if u=='month': return d.replace(day=1)
    if u=='year': return d.replace(month=1,day=1)
def o_step(u,b,k):
    if u=='second': return b+timedelta(seconds=k)
    if u=='minute': return b+timedelta(minutes=k)
    if u=='hour': return b+timedelta(hours=k)
    if u=='day': return b+timedelta(days=k)
    if u=='week': return b+timedelta(weeks=k)
    if u=='month':
        m=b.year*12+b.month-1+k; return b.replace(year=m//12,month=m%12+1)
    if u=='year': return b.replace(year=b.year+k)
def o_ceil(u,t):
    f=o_floor(u,t); return f if f==t else o_step(u,f,1)
errs=Counter(); ex={}
t0=time.time(); n=0
day=datetime(1999,1,1)
while day<datetime(2001,3,2):
    for t in (day, day+timedelta(hours=13,minutes=30,seconds=15,milliseconds=250), day+timedelta(hours=23,minutes=59,seconds=59,milliseconds=999)):
        for u in ('second','minute','hour','day','week','month','year'):
            iv=d3_time[u]
            for op in ('floor','ceil','round','offset1','offset40'):
                n+=1
                try:
                    if op=='floor': got=iv.floor(t); exp=o_floor(u,t)
                    elif op=='ceil': got=iv.ceil(t); exp=o_ceil(u,t)
                    elif op=='round':
                        got=iv.round(t); f=o_floor(u,t); c=o_step(u,f,1); exp= f if t-f < c-t else c
                    elif op=='offset1': got=iv.offset(o_floor(u,t),1); exp=o_step(u,o_floor(u,t),1)
                    else: got=iv.offset(o_floor(u,t),40); exp=o_step(u,o_floor(u,t),40)
                    if got!=exp:
                        errs[(u,op,'WRONG')]+=1; ex.setdefault((u,op,'WRONG'),(t,got,exp))
                except Exception as e:
                    errs[(u,op,type(e).__name__)]+=1; ex.setdefault((u,op,type(e).__name__),(t,str(e)))
    day+=timedelta(days=1)
print(n,time.time()-t0)
for k,v in sorted(errs.items()): print(k,v,ex[k])
