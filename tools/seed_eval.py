#!/venv/bin/python
"""Evaluate one seeded property-breaking change.

  tools/seed_eval.py <seed-id> <property> <patch.diff> <demo.py> [--checks C01,C02,...] [--needs "..."]

1. fresh scratch worktree of /repo HEAD (under /tmp): demo must exit 0;
2. apply the patch there: the repository's tests must still pass (109), demo must exit 1;
3. run the listed quick checks against the patched worktree (VERIF_REPO=<worktree>, evidence
   redirected to a scratch directory so committed evidence is not clobbered);
4. store patch, demo and meta.json under /verif/seeded/<seed-id>/ and remove the worktree.
"""
import argparse
import json
import os
import re
import shutil
import subprocess
import sys
import time

VERIF = os.path.dirname(os.path.dirname(os.path.abspath(__file__)))


def sh(cmd, cwd=None, env=None, timeout=3600):
    p = subprocess.run(cmd, shell=True, cwd=cwd, env=env, capture_output=True, text=True, timeout=timeout)
    return p.returncode, p.stdout + p.stderr


def main():
    ap = argparse.ArgumentParser()
    ap.add_argument("seed")
    ap.add_argument("prop", nargs="?")
    ap.add_argument("patch", nargs="?")
    ap.add_argument("demo", nargs="?")
    ap.add_argument("--checks", default="")
    ap.add_argument("--needs", default="")
    ap.add_argument("--tier", default=None)
    ap.add_argument("--keep-anyway", action="store_true")
    a = ap.parse_args()
    stored = os.path.join(VERIF, "seeded", a.seed)
    if a.prop is None:  # re-evaluate a stored seed
        old = json.load(open(os.path.join(stored, "meta.json")))
        a.prop = old["breaks_property"]
        a.patch, a.demo = os.path.join(stored, "patch.diff"), os.path.join(stored, "demo.py")
        a.needs = a.needs or old.get("needs_to_manifest", "")
        a.checks = a.checks or ",".join(old.get("checks", {}))
        a.tier = a.tier or old.get("tier")
    a.tier = a.tier or "quick"
    checks = [c for c in (a.checks or a.prop).split(",") if c]
    wt = "/tmp/seedwt_%s_%d" % (a.seed, os.getpid())
    meta = {"seed": a.seed, "breaks_property": a.prop, "needs_to_manifest": a.needs, "ran": [], "checks": {}, "tier": a.tier}
    rc, out = sh("git -C /repo worktree add -q --detach %s HEAD" % wt)
    if rc:
        print(out)
        return 2
    try:
        shutil.copy(a.demo, os.path.join(wt, "demo_seed.py"))
        rc0, out0 = sh("/venv/bin/python demo_seed.py", cwd=wt, timeout=600)
        meta["ran"].append({"cmd": "demo on unmodified tree", "exit": rc0, "tail": out0[-300:]})
        rc, out = sh("git apply %s" % os.path.abspath(a.patch), cwd=wt)
        if rc:
            print("PATCH DOES NOT APPLY", out)
            meta["verdict"] = "patch does not apply to current HEAD"
            return finish(a, meta, keep=False)
        rct, outt = sh("/venv/bin/python -m pytest -q -p no:cacheprovider 2>&1 | tail -3", cwd=wt, timeout=1200)
        passed = re.search(r"(\d+) passed", outt)
        failed = re.search(r"(\d+) failed", outt)
        meta["ran"].append({"cmd": "pytest with the change", "tail": outt.strip()[-200:]})
        rc1, out1 = sh("/venv/bin/python demo_seed.py", cwd=wt, timeout=600)
        meta["ran"].append({"cmd": "demo with the change", "exit": rc1, "tail": out1[-400:]})
        valid = rc0 == 0 and rc1 != 0 and passed and int(passed.group(1)) == 109 and not failed
        meta["valid"] = bool(valid)
        print("seed %s: demo clean=%d mutated=%d tests=%s -> %s" % (a.seed, rc0, rc1, outt.strip().split("\n")[-1], "VALID" if valid else "INVALID"))
        if not valid and not a.keep_anyway:
            meta["verdict"] = "rejected: not a valid seeded change (demo/tests)"
            return finish(a, meta, keep=False)
        env = dict(os.environ)
        env["VERIF_REPO"] = wt
        env["VERIF_EVIDENCE_DIR"] = "/tmp/seed_evidence_%d" % os.getpid()
        sh("rm -f %s/demo_seed.py" % wt)
        for c in checks:
            t0 = time.time()
            rc, out = sh("./check %s --tier %s" % (c, a.tier), cwd=VERIF, env=env, timeout=7200)
            lines = [l for l in out.split("\n") if re.match(r"(VIOLATION|KNOWN-FINDING|NONDETERMINISM|VACUOUS|  key:|  reason:)", l)]
            meta["checks"][c] = {"exit": rc, "wall_s": round(time.time() - t0, 1), "lines": [l[:400] for l in lines[:9]]}
            print("   %s exit=%d %s" % (c, rc, (lines[1:2] or [""])[0][:160]))
        shutil.rmtree(env["VERIF_EVIDENCE_DIR"], ignore_errors=True)
        meta["detected_by"] = sorted(c for c, r in meta["checks"].items() if r["exit"] == 1)
        meta["verdict"] = "detected" if meta["detected_by"] else "MISSED"
        return finish(a, meta, keep=True)
    finally:
        sh("git -C /repo worktree remove --force %s" % wt)
        sh("git -C /repo worktree prune")


def finish(a, meta, keep):
    if keep:
        d = os.path.join(VERIF, "seeded", a.seed)
        os.makedirs(d, exist_ok=True)
        mp = os.path.join(d, "meta.json")
        if os.path.exists(mp):
            old = json.load(open(mp))
            hist = old.get("history", [])
            hist.append({"verdict": old.get("verdict"), "detected_by": old.get("detected_by"), "at": old.get("at")})
            meta["history"] = hist
        meta["at"] = time.strftime("%Y-%m-%d %H:%M")
        for src, name in ((a.patch, "patch.diff"), (a.demo, "demo.py")):
            if os.path.abspath(src) != os.path.join(d, name):
                shutil.copy(src, os.path.join(d, name))
        with open(os.path.join(d, "meta.json"), "w") as f:
            json.dump(meta, f, indent=1)
    print("   verdict:", meta.get("verdict"))
    return 0


if __name__ == "__main__":
    sys.exit(main())
