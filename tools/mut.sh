#!/bin/sh
# usage: tools_mut.sh '<sed expr>' <file under /repo> <check ids...>   (applies, runs tests + checks, reverts)
expr="$1"; file="$2"; shift 2
cd /repo && sed -i "$expr" "$file" && git diff --stat | tail -1
if git diff --quiet; then echo "NO CHANGE APPLIED"; exit 3; fi
/venv/bin/python -m pytest -q -p no:cacheprovider -x 2>&1 | tail -1
for c in "$@"; do (cd /verif && ./check $c 2>&1 | grep -E "VIOLATION|KNOWN|NONDET|VACUOUS|key:|reason:|quick:" | cut -c1-300); done
git -C /repo checkout -- . 
