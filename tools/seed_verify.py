#!/venv/bin/python
"""Re-verify stored seeds against the current checks without touching their meta.json:
for every seeded/<id> that is recorded as detected, apply the patch in a scratch worktree and run ONE of the checks
that detected it (the property's own check if it is among them); print a line per seed and a summary.
usage: tools/seed_verify.py [id-prefix ...]"""
import glob
import json
import os
import subprocess
import sys

VERIF = os.path.dirname(os.path.dirname(os.path.abspath(__file__)))


def sh(cmd, cwd=None, env=None, timeout=3600):
    p = subprocess.run(cmd, shell=True, cwd=cwd, env=env, capture_output=True, text=True, timeout=timeout)
    return p.returncode, p.stdout + p.stderr


def main():
    want = sys.argv[1:]
    ok = bad = skipped = 0
    for d in sorted(glob.glob(os.path.join(VERIF, "seeded", "C[0-9][0-9]-*"))):
        sid = os.path.basename(d)
        if want and not any(sid.startswith(w) for w in want):
            continue
        m = json.load(open(os.path.join(d, "meta.json")))
        det = m.get("detected_by") or []
        if not det:
            skipped += 1
            print("%-10s (recorded as MISSED - skipped)" % sid)
            continue
        check = m["breaks_property"] if m["breaks_property"] in det else det[0]
        tier = m.get("tier", "quick")
        wt = "/tmp/verifywt_%d" % os.getpid()
        sh("git -C /repo worktree add -q --detach %s HEAD" % wt)
        try:
            rc, out = sh("git apply %s" % os.path.join(d, "patch.diff"), cwd=wt)
            if rc:
                print("%-10s PATCH DOES NOT APPLY" % sid)
                bad += 1
                continue
            env = dict(os.environ)
            env.update(VERIF_REPO=wt, VERIF_EVIDENCE_DIR="/tmp/verify_evidence_%d" % os.getpid())
            rc, out = sh("./check %s --tier %s" % (check, tier), cwd=VERIF, env=env)
            key = next((l.strip() for l in out.split("\n") if l.startswith("  key:")), "")
            print("%-10s %s exit=%d %s" % (sid, check, rc, key))
            sys.stdout.flush()
            if rc == 1:
                ok += 1
            else:
                bad += 1
        finally:
            sh("git -C /repo worktree remove --force %s" % wt)
    sh("git -C /repo worktree prune")
    print("verified %d, NOT reproduced %d, recorded-missed %d" % (ok, bad, skipped))


if __name__ == "__main__":
    main()
