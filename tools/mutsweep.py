#!/venv/bin/python
"""Hand-written mutation sweep (DESIGN.md section 6): each mutation is a string
replacement applied in a scratch worktree of /repo HEAD; the repository's tests
and the listed quick checks are run against it (VERIF_REPO), nothing touches
/repo.  Usage: tools/mutsweep.py [name-prefix ...]   -> table on stdout and
/verif/seeded/handmade.json"""
import json
import os
import re
import subprocess
import sys
import time

VERIF = os.path.dirname(os.path.dirname(os.path.abspath(__file__)))

M = [
    # name, file, old, new, checks
    ("C01-stub-label-linespacing", "labella/removeOverlap.py", "if v1.node.isStub() and v2.node.isStub():", "if v1.node.isStub() or v2.node.isStub():", "C01"),
    ("C01-zero-upperbound", "labella/vpsc.py", "ZERO_UPPERBOUND = -1e-10", "ZERO_UPPERBOUND = -1", "C01,C05"),
    ("C02-target-idealpos", "labella/removeOverlap.py", "node.parent.currentPos if node.parent else node.idealPos", "node.idealPos", "C02,C07"),
    ("C02-floor", "labella/removeOverlap.py", "v.node.currentPos = round(v.position())", "v.node.currentPos = __import__('math').floor(v.position())", "C02"),
    ("C02-wall-weight-1", "labella/removeOverlap.py", 'vpsc.Variable(options["maxPos"], 1e10)', 'vpsc.Variable(options["maxPos"], 1)', "C02,C03"),
    ("C03-walls-only-both", "labella/removeOverlap.py", 'if ("minPos" in options) and (not options["minPos"] is None):',
     'if ("minPos" in options) and (not options["minPos"] is None) and options.get("maxPos") is not None:', "C03,C02"),
    ("C04-stub-width", "labella/distributor.py", 'stub = stub.createStub(self.options["stubWidth"])\n                    layers[j].append(stub)',
     'stub = stub.createStub(1)\n                    layers[j].append(stub)', "C04"),
    ("C04-stub-loop-stops", "labella/distributor.py", "for j in range(i - 1, -1, -1):", "for j in range(i - 1, max(i - 2, -1), -1):", "C04"),
    ("C04-gt3", "labella/distributor.py", "len(nodesInCurrentLayer) > 2 and currentLayerWidth > maxWidth", "len(nodesInCurrentLayer) > 3 and currentLayerWidth > maxWidth", "C04"),
    ("C04-stale-getlayers", "labella/force.py", "        self._nodes = x\n        self.layers = None", "        self._nodes = x", "C04,C06"),
    ("C05-lm-sign", "labella/vpsc.py", "c.lm = -_dfdv", "c.lm = _dfdv", "C05"),
    ("C05-lagrangian-tol", "labella/vpsc.py", "LAGRANGIAN_TOLERANCE = -1e-4", "LAGRANGIAN_TOLERANCE = -1e4", "C05"),
    ("C05-no-cycle-test", "labella/vpsc.py", "if lb.isActiveDirectedPathBetween(v.right, v.left):", "if False:", "C05"),
    ("C05-merge-dist", "labella/vpsc.py", "r.mergeAcross(l, c, dist)", "r.mergeAcross(l, c, -dist)", "C05,C02"),
    ("C06-itree-module-scope", "labella/distributor.py", "        iTree = IntervalTree()\n", "        iTree = _ITREE\n", "C06,C04"),
    ("C07-dot-at-currentpos", "labella/timeline.py", "attrib[field] = str(node.getRoot().idealPos)", "attrib[field] = str(node.getRoot().currentPos)", "C07,C09"),
    ("C07-range-not-flipped", "labella/timeline.py", 'if self.options["direction"] in ["left", "right"]:\n            self.options["scale"].range([0, innerHeight])',
     'if self.options["direction"] in ["left"]:\n            self.options["scale"].range([0, innerHeight])', "C07"),
    ("C07-link-wrong-node", "labella/timeline.py", 'attrib["d"] = self.renderer.generatePath(node)', 'attrib["d"] = self.renderer.generatePath(self.nodes[(i + 1) % len(self.nodes)])', "C07,C09"),
    ("C08-no-layergap", "labella/renderer.py", 'pos = node.getLayerIndex() * gap + options["layerGap"]\n                node.x = pos\n                node.y = node.currentPos',
     'pos = node.getLayerIndex() * gap\n                node.x = pos\n                node.y = node.currentPos', "C08,C07"),
    ("C08-nodeheight-min", "labella/timeline.py", "            nodeHeight = max((n.w for n in nodes))", "            nodeHeight = min((n.w for n in nodes))", "C08,C07"),
    ("C09-tikz-round-origin", "labella/timeline.py", '"\\\\begin{scope}[shift={(%i, %i)}]"\n                % (self.nodePos(node, nodeHeight))',
     '"\\\\begin{scope}[shift={(%i, %i)}]"\n                % tuple(round(v) for v in self.nodePos(node, nodeHeight))', "C09"),
    ("C09-colour-index-tikz", "labella/timeline.py", '% (int2name(i), hex2html(self.dotColor(node.data.data, i)))', '% (int2name(i), hex2html(self.dotColor(node.data.data, i + 1)))', "C09"),
    ("C10-node-cache-on-class", "labella/timeline.py", "    def get_nodes(self):\n        nodes = []\n", "    _cache = []\n\n    def get_nodes(self):\n        nodes = Timeline._cache\n        del nodes[len(self.items):]\n        if len(nodes) == len(self.items):\n            return nodes\n        del nodes[:]\n", "C10,C07"),
    ("C11-options-none", "labella/timeline.py", "        if options is None:\n            options = {}\n        # update latex options", "        # update latex options", "C11"),
    ("C11-degenerate", "labella/scale.py", 'b = (b - a) or float("inf")\n    return lambda x: (x - a) / b', 'b = (b - a)\n    return lambda x: (x - a) / b', "C11"),
    ("C12-clamp-no-rescale", "labella/scale.py", "        self._clamp = x\n        return self.rescale()", "        self._clamp = x\n        return self", "C12"),
    ("C12-nice-no-rescale", "labella/scale.py", "        d3_scale_linearNice(self._domain, m)\n        return self.rescale()", "        d3_scale_linearNice(self._domain, m)\n        return self", "C12,C14"),
    ("C12-copy-shares", "labella/scale.py", "self._domain = [0, 1] if domain is None else list(domain)", "self._domain = [0, 1] if domain is None else domain", "C12"),
    ("C13-threshold", "labella/scale.py", "    elif err <= 0.35:\n        step *= 5", "    elif err <= 0.25:\n        step *= 5", "C13"),
    ("C13-drange-le", "labella/scale.py", "    while r < stop:\n        yield r", "    while r <= stop:\n        yield r", "C13"),
    ("C13-precision", "labella/scale.py", "return -math.floor(math.log(value) / math.log(10) + 0.01)", "return -math.floor(math.log(value) / math.log(10) + 0.01) - 1", "C13"),
    ("C14-floor-ceil-swapped", "labella/scale.py", '        domain[i0] = nice.floor(x0)\n        domain[i1] = nice.ceil(x1)', '        domain[i0] = nice.ceil(x0)\n        domain[i1] = nice.floor(x1)', "C14"),
    ("C14-single-pass-misscaled", "labella/scale.py", "    d3_scale_nice(\n        domain, d3_scale_niceStep(d3_scale_linearTickRange(domain, m)[2])\n    )\n    d3_scale_nice(",
     "    d3_scale_nice(\n        domain, d3_scale_niceStep(3 * d3_scale_linearTickRange(domain, m)[2])\n    )\n    d3_scale_nice(", "C14"),
    ("C15-drop-micro", "labella/d3_time.py", "dt2milli = lambda x: (x - _EPOCH) / timedelta(milliseconds=1)", "dt2milli = lambda x: float((x - _EPOCH) // timedelta(seconds=1) * 1000)", "C15,C16"),
    ("C16-bisect-off", "labella/scale.py", "        if a[mid] > x:\n            hi = mid", "        if a[mid] >= x:\n            hi = mid", "C16,C14"),
    ("C16-modulus-field", "labella/d3_time.py", '    lambda date: date.hour,\n)', '    lambda date: date.hour + 1,\n)', "C16,C17"),
    ("C16-stop-plus1", "labella/scale.py", "milli2dt(extent[0]), milli2dt(extent[1] + 1), skip", "milli2dt(extent[0]), milli2dt(extent[1]), skip", "C16"),
    ("C17-week-monday", "labella/d3_time.py", "    diff = ((date.isoweekday() % 7) + i) % 7", "    diff = ((date.isoweekday() - 1) + i) % 7", "C17,C16"),
    ("C17-ceil-no-minus", "labella/d3_time.py", "ndate = self._local(milli2dt(dt2milli(date) - 1))", "ndate = self._local(milli2dt(dt2milli(date)))", "C17"),
    ("C17-month-year-carry", "labella/d3_time.py", "        ndate = ndate.replace(year=ndate.year + 1)\n        nmonth -= 12", "        nmonth -= 12", "C17,C16"),
    ("C18-local-timestamp", "labella/d3_time.py", "dt2milli = lambda x: (x - _EPOCH) / timedelta(milliseconds=1)", "dt2milli = lambda x: x.timestamp() * 1000.0", "C18"),
    ("C19-accent-table", "labella/tex.py", '0x0303: "~",', '0x0303: "^",', "C19"),
    ("C19-order-swapped", "labella/tex.py", 'out.append("\\\\%s{%s}" % (accents[acc], chr(base)))', 'out.append("\\\\%s{%s}" % (chr(base), accents[acc]))', "C19"),
    ("C20-int2name", "labella/utils.py", "div = (div - mod) // 26", "div = (div - 1) // 26", "C20"),
    ("C20-expand", "labella/utils.py", 'code = "".join([code[0], code[0], code[1], code[1], code[2], code[2]])', "code = code + code", "C20,C09"),
    ("C20-no-upper", "labella/utils.py", "    return code.upper()", "    return code", "C20,C09"),
]


def sh(cmd, cwd=None, env=None, timeout=3600):
    p = subprocess.run(cmd, shell=True, cwd=cwd, env=env, capture_output=True, text=True, timeout=timeout)
    return p.returncode, p.stdout + p.stderr


def main():
    want = sys.argv[1:]
    out_path = os.path.join(VERIF, "seeded", "handmade.json")
    results = json.load(open(out_path)) if os.path.exists(out_path) else {}
    for name, f, old, new, checks in M:
        if want and not any(name.startswith(w) for w in want):
            continue
        if not want and name in results and results[name].get("verdict") in ("detected", "MISSED"):
            continue
        wt = "/tmp/mutwt_%d" % os.getpid()
        sh("git -C /repo worktree add -q --detach %s HEAD" % wt)
        try:
            p = os.path.join(wt, f)
            s = open(p).read()
            if old not in s:
                print("%-32s PATTERN NOT FOUND" % name)
                results[name] = {"verdict": "pattern not found"}
                continue
            s = s.replace(old, new, 1)
            if "_ITREE" in new:
                s = s.replace("DEFAULT_OPTIONS = {", "_ITREE = IntervalTree()\n\nDEFAULT_OPTIONS = {", 1)
            open(p, "w").write(s)
            rc, t = sh("/venv/bin/python -m pytest -q -p no:cacheprovider -x --timeout=60 2>&1 | tail -1", cwd=wt, timeout=900)
            tests = t.strip()
            if "109 passed" not in tests:
                print("%-32s tests: %-22s (the repository's tests catch it - not a seeded change)" % (name, tests[:22]))
                results[name] = {"file": f, "old": old, "new": new, "tests": tests, "verdict": "caught by the existing tests",
                                 "tests_still_pass": False}
                continue
            env = dict(os.environ)
            env["VERIF_REPO"] = wt
            env["VERIF_EVIDENCE_DIR"] = "/tmp/mut_evidence_%d" % os.getpid()
            det = {}
            for c in checks.split(","):
                try:
                    rc, o = sh("VERIF_WORKERS=8 ./check %s" % c, cwd=VERIF, env=env, timeout=1800)
                except subprocess.TimeoutExpired:
                    rc, o = 124, "  key: (check did not finish within 30 min)"
                key = re.search(r"^  key: (.*)$", o, re.M)
                det[c] = {"exit": rc, "key": key.group(1) if key else None}
            caught = [c for c, r in det.items() if r["exit"] == 1]
            verdict = "detected" if caught else "MISSED"
            print("%-32s tests: %-22s %s %s" % (name, tests[:22], verdict, {c: (r["exit"], r["key"]) for c, r in det.items()}))
            sys.stdout.flush()
            results[name] = {"file": f, "old": old, "new": new, "tests": tests, "checks": det, "verdict": verdict,
                             "tests_still_pass": "109 passed" in tests}
        finally:
            sh("git -C /repo worktree remove --force %s" % wt)
            json.dump(results, open(out_path, "w"), indent=1, sort_keys=True)
    sh("git -C /repo worktree prune")


if __name__ == "__main__":
    main()
