#!/venv/bin/python
"""Re-base stored seeded changes whose patch.diff no longer applies to /repo HEAD (a later "fix:" commit touched
neighbouring lines): apply with reduced context / fuzz in a scratch worktree and store the regenerated diff.
A patch that cannot be re-based is reported and left alone.

  tools/seed_rebase.py            (all stored seeds)
"""
import glob
import json
import os
import subprocess
import sys
import time

VERIF = os.path.dirname(os.path.dirname(os.path.abspath(__file__)))


def sh(cmd, cwd=None):
    p = subprocess.run(cmd, shell=True, cwd=cwd, capture_output=True, text=True)
    return p.returncode, p.stdout + p.stderr


def main():
    head = sh("git -C /repo rev-parse --short HEAD")[1].strip()
    for d in sorted(glob.glob(os.path.join(VERIF, "seeded", "C*"))):
        patch = os.path.join(d, "patch.diff")
        if not os.path.exists(patch):
            continue
        if sh("git apply --check %s" % patch, cwd="/repo")[0] == 0:
            continue
        wt = "/tmp/rebasewt_%d" % os.getpid()
        sh("git -C /repo worktree add -q --detach %s HEAD" % wt)
        try:
            rc, out = sh("git apply -C1 %s" % patch, cwd=wt)
            if rc:
                sh("git checkout -- .", cwd=wt)
                rc, out = sh("patch -p1 -F3 --no-backup-if-mismatch < %s" % patch, cwd=wt)
            if rc:
                print("%s: cannot be re-based onto %s: %s" % (os.path.basename(d), head, out.strip().split("\n")[-1]))
                continue
            rc, diff = sh("git diff", cwd=wt)
            with open(patch, "w") as f:
                f.write(diff)
            mp = os.path.join(d, "meta.json")
            meta = json.load(open(mp))
            meta.setdefault("rebased", []).append({"onto": head, "at": time.strftime("%Y-%m-%d %H:%M")})
            json.dump(meta, open(mp, "w"), indent=1)
            print("%s: re-based onto %s" % (os.path.basename(d), head))
        finally:
            sh("git -C /repo worktree remove --force %s" % wt)
            sh("git -C /repo worktree prune")


if __name__ == "__main__":
    sys.exit(main())
