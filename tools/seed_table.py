#!/venv/bin/python
"""Markdown tables of the seeded changes (sub-agent mutants: seeded/<id>/meta.json; hand-made: seeded/handmade.json)."""
import glob
import json
import os

VERIF = os.path.dirname(os.path.dirname(os.path.abspath(__file__)))
print("| seed | breaks | needs to manifest | first evaluation | now detected by (quick checks; violation key) |")
print("|---|---|---|---|---|")
for d in sorted(glob.glob(os.path.join(VERIF, "seeded", "C[0-9][0-9]-*"))):
    m = json.load(open(os.path.join(d, "meta.json")))
    hist = m.get("history") or []
    first = (hist[0].get("verdict") + (" by " + ",".join(hist[0].get("detected_by") or []) if hist[0].get("detected_by") else "")) if hist else m.get("verdict")
    det = []
    for c, r in m.get("checks", {}).items():
        if r["exit"] == 1:
            key = next((l.split("key:")[1].strip() for l in r["lines"] if "key:" in l), "")
            det.append("%s (%s)%s" % (c, key, ", thorough tier" if m.get("tier") == "thorough" else ""))
    print("| %s | %s | %s | %s | %s |" % (m["seed"], m["breaks_property"], m.get("needs_to_manifest", ""), first, "; ".join(det) or "**MISSED**"))
hp = os.path.join(VERIF, "seeded", "handmade.json")
if os.path.exists(hp):
    print()
    print("| hand-made change | repository tests | verdict | checks (exit, key) |")
    print("|---|---|---|---|")
    for name, r in sorted(json.load(open(hp)).items()):
        print("| %s | %s | %s | %s |" % (name, "pass" if r.get("tests_still_pass") else "FAIL (caught by tests)", r.get("verdict"),
                                         "; ".join("%s %s %s" % (c, v["exit"], v["key"] or "") for c, v in r.get("checks", {}).items())))
