#!/venv/bin/python
"""Markdown table of what the last run of every check covered (from evidence/*.json), for DESIGN.md 10.3.

  tools/scope_table.py [evidence-dir]
"""
import glob
import json
import os
import sys

VERIF = os.path.dirname(os.path.dirname(os.path.abspath(__file__)))


def main():
    d = sys.argv[1] if len(sys.argv) > 1 else os.path.join(VERIF, "evidence")
    print("| Prop | tier | evaluations | distinct states | transitions | non-trivial | shards | wall (s) | exhaustive within bounds |")
    print("|---|---|---|---|---|---|---|---|---|")
    for f in sorted(glob.glob(os.path.join(d, "C*.json"))):
        e = json.load(open(f))
        c = e["coverage"]
        print("| %s | %s | %s | %s | %s | %s | %s | %s | %s |" % (
            e["property_id"], e["tier"], "{:,}".format(c["evaluations"]), "{:,}".format(c["states"]),
            "{:,}".format(c["transitions"]), "{:,}".format(c["distinct_nontrivial"]), c["shards"], round(e["wall_s"]),
            "yes" if c["exhaustive"] else "caps: %s" % "; ".join(map(str, c["caps_hit"]))[:80]))


if __name__ == "__main__":
    main()
