"""Per-property manifest metadata; `python -m mc.registry` rewrites MANIFEST.json."""
import json
import os

VERIF = os.path.dirname(os.path.dirname(os.path.abspath(__file__)))

# id -> (technique, level text, level note, design ref)
_LAY = ("bounded-exhaustive exploration of label multisets x engine configurations (plus deep-narrow cluster families, "
        "near-tie and epoch-magnitude slices, skewed-cluster and two-group distance sweeps), each executed on the real Force.compute(), "
        "and the same oracle at the two other entry points (removeOverlap() called directly, Timeline with the options as `labella`); ")
_N = " Exact numbers of the run are in the evidence file (coverage.bounds, counters)."
CLAIMED = {
    "C01": (_LAY + "all-pairs separation/order invariant",
            "Small-scope exhaustive: every multiset of <=4 labels (<=5 with one width; 6-7 on a 7-position grid under tight bounds; thorough "
            "<=5 / <=7) over grids of positions and widths incl. fractional widths, targets a few ulps apart and coordinates of "
            "1e9/1.7e12, x 16-30 engine configurations (incl. lineSpacing 0 with zero-width stubs) + 3 input-dependent ones; clusters of "
            "5-16 and 50-200 labels (thorough: every size 1..200); a tied block of narrow labels plus one wide one with an outlier at "
            "every distance; two groups at every distance under very low density; every 4th case builds its nodes the way Timeline "
            "does (width assigned after construction), every 8th after the labels were laid out once with a placeholder width. The oracle is the property's own inequality on every pair of "
            "every layer. Exhaustive inside the bound, silent about inputs outside the grids." + _N,
            "trusted: the invariant evaluator in mc/layout.py; float slack 1e-6 + 4e-16*|position|*(items+2)", "DESIGN.md sections 4 C01, 10"),
    "C02": (_LAY + "comparison with an exact isotonic least-squares reference model (PAVA over rationals)",
            "Same exploration as C01; every fitting layer is compared with the exact optimum computed independently in rational "
            "arithmetic (cross-checked against an active-set QP in ./setup). Known finding: bounds are soft for targets ~1e10 units "
            "outside them (probe prints KNOWN-FINDING)." + _N,
            "trusted: mc/oracles.py iso_place (self-tested against qp_exact in ./setup)", "DESIGN.md sections 4 C02, 10"),
    "C03": (_LAY + "bounds/spill invariant incl. per-input exact-fit, just-short and grossly-short bounds",
            "Same exploration as C01 with input-dependent bounds that make a layer fit exactly, miss by one unit, or miss grossly, "
            "plus targets 1e6..1e9 units outside the bounds; invariant on edges vs bounds, full separation and spill otherwise. Same "
            "known finding as C02." + _N,
            "trusted: exact fit computation in mc/layout.py", "DESIGN.md sections 4 C03, 10"),
    "C04": ("bounded-exhaustive exploration: full product of distributor options x label multisets on the real "
            "Distributor.distribute, boundary-value and deep families, plus the engine scope through Force.compute()/getLayers(); "
            "structural invariant",
            "Every multiset of <=3 (thorough <=4; <=6 reduced) labels x all 540 distributor option sets, a boundary-value family "
            "(required = budget*(1+-eps)), clusters of 5-9 labels, distribute / Node.clone() / distribute-the-clones sequences, "
            "structural invariant (conservation, contiguity, complete stub chains, payload, stub width, single-layer and capacity "
            "clauses) on the distributor's result and on the engine's getLayers() over the C01 scope (capacity clauses with the layer "
            "width the engine derives from its bounds)." + _N,
            "trusted: the structural invariant in mc/props/c04.py; capacity cases where density*layerWidth is inexact in binary and "
            "within 1e-9 of the need are counted, not judged", "DESIGN.md sections 4 C04, 10"),
    "C05": ("bounded-exhaustive exploration of complete small problem spaces (DAG and cyclic constraint graphs, weights, scales, "
            "relabellings, re-solving) on the real vpsc.Solver, decided by an exact weak-duality optimality certificate (max-flow "
            "multipliers) and an exact active-set QP reference",
            "Every instance of the stated small spaces (n<=3 with duplicates and 16 weight/scale vectors; n=4; deep-narrow parametric "
            "families - chains, walled chains, stars, ladders, layered DAGs x desired / gap / weight patterns - for every n to 60 (thorough 100); thorough n=5 and "
            "every DAG on 6 variables with <= 6 edges; every multiset of <=3/4 directed edges incl. "
            "contradictory cycles; every pair of desired vectors on the re-solve path, on the same solver and on a new Solver over the "
            "same objects) is solved by the real solver and checked for termination, feasibility, cost consistency "
            "and optimality: a dual lower bound evaluated in rationals proves the returned cost is within 1e-4 of optimal; rejections "
            "are confirmed by the exact QP. Irregular DAGs with >= 7 variables outside the families, and violations inside a numeric window far below the value grid, are outside the scope (one seeded change escapes there)." + _N,
            "trusted: mc/oracles.py (dual bound arithmetic, qp_exact), self-tested against PAVA in ./setup", "DESIGN.md sections 4 C05, 10"),
    "C06": ("level-synchronous breadth-first search over API-call histories (set labels / re-present stale nodes / compute / "
            "re-configure / other live engines, also on the same nodes or on clones of them / stand-alone distributor / append to the caller's list / continue with clones) on "
            "the real Force engine with fingerprint-deduplicated states and a differential fresh-engine oracle computed from "
            "pristine module state, plus exhaustive enumeration of input permutations",
            "E-HIST to depth 5 (thorough 8) over 23 operations; every compute() is compared with a fresh engine, work of another engine on "
            "its own labels or on clones must leave the first engine's layout and layering as they were; every replay starts "
            "from the library's import-time module state; E-INPUT: every permutation of every label multiset (n<=3; n=4 partly in "
            "quick) x configs, all 720 orders of label sets whose decimal widths sum to the split threshold, and of label sets under every budget inside the float-rounding window of their summed widths." + _N,
            "trusted: fingerprint only deduplicates (over-fine); reference = the library itself from a fresh start", "DESIGN.md sections 4 C06, 10"),
    "C07": ("bounded-exhaustive enumeration of datasets x directions x scales x domains x engine/layout options x back-ends, each "
            "exported by the real Timeline classes, parsed (SVG via ElementTree, TikZ via anchored regexes) and compared with an "
            "exact affine model of the caller's own data",
            "Every dataset sequence of <=2 (thorough <=3) data over a 36-letter alphabet per scale kind (numeric / datetime, date, "
            "bare time; caller-supplied and default scale; a custom timeFn accessor) x 80 configurations x 2 back-ends, plus axes of ~2000 and "
            "~40000 units and datetimes with microseconds on a 3 ms axis; the oracle checks counts, axis, dot and "
            "tick positions on one affine time function, link way-points layer by layer and end point, box sizes (datum's size plus "
            "padding; line height read off the drawing) and texts." + _N,
            "trusted: parsers and geometric model in mc/draw.py, mc/drawcases.py", "DESIGN.md sections 4 C07, 10"),
    "C08": ("bounded-exhaustive enumeration of datasets x directions x engine options x layer gaps x label paddings on the real "
            "export; rectangle disjointness/side/layer-order invariant",
            "Every multiset of <=3 (thorough <=4) data over 24 letters x 4 directions x 6 engine option sets x 3 layer gaps, 3 label "
            "paddings in rotation." + _N, "trusted: mc/draw.py parsers", "DESIGN.md sections 4 C08, 10"),
    "C09": ("bounded-exhaustive differential exploration: the same enumerated inputs through both real back-ends, parsed records "
            "compared field by field",
            "C07's dataset scope x 80 configurations with 15 colour/border/tick/dot-radius/canvas/latex variants in rotation, box sizes with many "
            "significant digits, axes of ~2000, ~40000 and ~3,000,000 units; SVG and TikZ records "
            "must agree on axis, boxes, links point for point, dots, ticks, colours and texts." + _N,
            "trusted: mc/draw.py parsers, mc/uni.py", "DESIGN.md sections 4 C09, 10"),
    "C10": ("level-synchronous breadth-first search over construct/export histories on 5-6 timeline specs that together use every "
            "option group, every history replayed on a purged and re-imported library, states = fingerprints of instances plus all "
            "labella module/class globals; every ordered pair of 32 default-scale timelines over all tick units and the year-step thresholds; three exports in a row of one "
            "timeline over a grid of data extents, followed by a timeline with the caller's own TimeScale(fmt=..) over the same data; byte comparison with fresh-process references",
            "All histories to depth 8 with one back-end per spec (thorough: both back-ends, 6 specs, depth 7) over new(X)/export(X), "
            "all 1024 ordered pairs of the span-ladder timelines, and repeated exports for ~700 (thorough ~1400) data extents; the oracle is byte equality with the document produced alone in "
            "a fresh interpreter. Scale subclasses, object lifetimes and in-place edits of a live timeline's options are not "
            "in the alphabet." + _N,
            "trusted: subprocess references; fingerprint over module globals (over-fine)", "DESIGN.md sections 4 C10, 10"),
    "C11": ("bounded-exhaustive enumeration of documented input shapes (date ladder x spans x value types x sizes; option forms x "
            "directions x algorithms x bounds; adjacent-float numeric times; records with foreign fields; rows of exactly touching labels) on the "
            "real constructors and export(); deep-narrow sweep over cluster sizes",
            "No-exception / parses / one mark per datum / degenerate-domain clause on every enumerated shape (datetime, date, "
            "datetime with microseconds; spans 0, 1 ms .. 150 y); thorough adds every start day of 2019-2020 and 200-1000 labels with "
            "clusters up to 200; the 250-cluster RecursionError is a recorded known finding." + _N,
            "trusted: parsers; 10 s CPU horizon per export", "DESIGN.md sections 4 C11, 10"),
    "C12": ("exhaustive grid of domains/ranges/queries (incl. near-tie domains and queries just off the end points) against an "
            "exact rational affine map, constructor forms, plus breadth-first search over API-call histories "
            "(domain/range/clamp/nice/interpolate/copy/deepcopy, getter read-modify-write, caller-kept lists of ints and of floats, a second scale handed the first one's getter lists, one-shot iterators on a pool of "
            "scales) with aliasing-aware state fingerprints",
            "E-INPUT: all (domain, range, query) combinations of a 14-value float grid plus near-tie domains; the map through the reported "
            "end points after nice(m) for every ordered pair of the integers and halves -10..20; E-HIST: every call history up to depth 4 "
            "(thorough 5; 7 for a 13-operation core alphabet) over 27 operations on <=3 scales, each state rebuilt on fresh real objects; "
            "invariants: setters set, reported end points map to reported range (method and call form), clamped outputs stay in the "
            "range, no cross-scale interference." + _N,
            "trusted: Fraction arithmetic; fingerprint only deduplicates, it is over-fine by construction", "DESIGN.md sections 4 C12, 10"),
    "C13": ("bounded-exhaustive enumeration of a mantissa x exponent grid of linear domains (incl. narrow ones) x every m in 1..100, "
            "boundary-value families around the step thresholds and beside the ticks at either end, live-scale call sequences, and process-wide "
            "settings (decimal context, logging level), on the real ticks()/tickFormat(); "
            "tick-set invariants",
            "Every admissible ordered pair from the value grid x 101 counts; 43k domains on and beside the three step-switching "
            "thresholds; sequences on one live scale (ticks, nice / domain / near-by domain / copy, ticks; formatter kept across a "
            "later tickFormat; a tick iterator abandoned after its first element, then ticks again on this and another scale); invariants on step form, spacing, completeness, count, labels." + _N,
            "trusted: float tolerances stated in the module", "DESIGN.md sections 4 C13, 10"),
    "C14": ("bounded-exhaustive enumeration of linear domains (C13 grid) and time domains (calendar-critical start instants x span "
            "ladder x counts x orientations) on the real nice(); widening/roundness invariants with a calendar reference",
            "Linear: the C13 grid x 10 counts, also as piecewise (three-entry) domains and domains narrower than 1e-7 of their magnitude; time (also nice(count, skip)): month-end/year-end/leap starts x 3 times of day x 38 spans x 6 counts x 2 "
            "orientations; step measured through the public ticks()." + _N, "trusted: mc/cal.py (datetime/calendar arithmetic)",
            "DESIGN.md sections 4 C14, 10"),
    "C15": ("exhaustive enumeration of ordered pairs of domain instants (plus 1 ms .. 61 s domains) x ranges x query instants on the "
            "real TimeScale, built in six call orders (incl. caller-kept lists and one-shot iterators), against an exact affine map on epoch milliseconds",
            "All ordered pairs of 120 (thorough 409) instants spanning 1900-2200 x 3 ranges x 11 queries (half of them instances of a "
            "datetime subclass); exact rational reference; round trip within 1 ms; agreement with LinearScale." + _N,
            "trusted: datetime arithmetic for naive epoch milliseconds", "DESIGN.md sections 4 C15, 10"),
    "C16": ("bounded-exhaustive enumeration of time domains (calendar-critical start instants x 42-rung span ladder x counts x "
            "orientations; spans on and beside count x table entry), scale/copy call sequences, zoom sequences of 21-42 domain() calls on one live scale, and plain requests after ticks(count, step) or after a "
            "scale with its own method table, on the real TimeScale.ticks(); tick invariants with a calendar reference",
            "Every combination of the stated grids; oracle derives the calendar class from the smallest gap and checks every tick "
            "against R-CAL; count and gap-ratio bounds; sub-millisecond-per-tick domains; copies re-domained and asked for ticks in "
            "both orders." + _N, "trusted: mc/cal.py", "DESIGN.md sections 4 C16, 10"),
    "C17": ("complete enumeration of every day in the year set x 3 instants x 7 units x floor/ceil/round/offset and a grid of ranges "
            "(also through the plural aliases), against a calendar reference model (datetime/timedelta/calendar)",
            "Thorough covers every day 1900-2200, all k in 0..400 for 12 years and three enumerations of > 10^6 boundaries; quick covers "
            "9 boundary years; ranges over month-end/week-boundary starts x 6 spans x steps 1..12, 13..61 and 100..3600; enumerations of > 10^5 seconds/minutes/hours with steps 7 and 12 (thorough 1, 5, 7..12); one year of operations "
            "under three process-wide settings (calendar.setfirstweekday, decimal context, logging level)." + _N,
            "trusted: mc/cal.py; week numbering for dt>1 judged numbering-agnostically", "DESIGN.md sections 4 C17, 10"),
    "C18": ("exhaustive re-execution of enumerated calendar/scale/tick/nice/export computations under 8 process time zones (tzset; incl. a "
            "leap-second zone file) incl. every minute around the 2021 DST transitions, every month boundary 1900-2100, every date 1900-2037 on "
            "which one of the zones changes its UTC offset, and fold=1 datetimes; byte comparison with the UTC run",
            "About 105,000 (quick) computations x 7 non-UTC zones; any byte of difference is a violation." + _N,
            "trusted: tzset equivalence with a process started under TZ; tzdata of the image", "DESIGN.md sections 4 C18, 10"),
    "C19": ("complete enumeration of all 1,112,064 Unicode scalar values in 4 contexts, every ordered pair of the 112 combining diacritical marks, "
            "plus all strings up to length 4 (5) over mixed alphabets on the real uni2tex, and strings up to length 2 (3) through TimelineTex.export; character-exact read-back "
            "reference",
            "E-FULL over code points, bounded-exhaustive over strings (TeX specials, white space, combining sequences, compatibility "
            "characters); accent commands are read back as combining marks, compared with the input under NFD and aligned with it "
            "character by character; ASCII must be unchanged." + _N,
            "trusted: unicodedata of the interpreter; mc/uni.py", "DESIGN.md sections 4 C19, 10"),
    "C20": ("exhaustive enumeration of the finite domain (all indices 0..10^6, all hex codes, back-to-back code sequences, one "
            "750-3000 label document and one beyond the first four-letter name, 18300-19000 labels) on the real functions",
            "Complete enumeration: every index 0..10^6 against the shortlex sequence, every 3-digit code and (thorough) every 6-digit "
            "code in both cases against integer parsing; call sequences of codes sharing a numeric value; a TikZ document whose macro "
            "names must be the shortlex names, pairwise distinct." + _N,
            "trusted: int(s,16), itertools.product; the interpreter", "DESIGN.md sections 4 C20, 10"),
}

PENDING = {}


def build():
    checks = []
    for pid in sorted(CLAIMED):
        tech, text, note, ref = CLAIMED[pid]
        checks.append({
            "property_id": pid,
            "quick_cmd": "./check %s --tier quick" % pid,
            "thorough_cmd": "./check %s --tier thorough" % pid,
            "evidence_file": "/verif/evidence/%s.json" % pid,
            "replay_cmd_template": "./check %s --replay {path}" % pid,
            "engine": "mc-explorer",
            "level_claimed": {"category": "model_checking", "text": text, "design_ref": ref},
            "level_note": note,
            "technique": tech,
        })
    allids = [json.loads(l)["id"] for l in open(os.path.join(VERIF, "properties.jsonl"))]
    na = [{"property_id": p, "reason": PENDING.get(p, "check not built yet in this round; planned (DESIGN.md section 8a)")}
          for p in allids if p not in CLAIMED]
    m = {
        "version": 1,
        "setup_cmd": "./setup",
        "hooks": {
            "guard": "LABELLA_PY_VERIF",
            "enable": "no build step: ./check exports LABELLA_PY_VERIF=1 and imports labella from /repo's working tree",
            "baseline_off_cmd": "cd /repo && env -u LABELLA_PY_VERIF /venv/bin/python -m pytest -ra -q -p no:cacheprovider --timeout=900",
            "source_commits": [],
            "add_only": True,
        },
        "engines": [{
            "name": "mc-explorer", "path": "/verif/mc",
            "serves_properties": sorted(CLAIMED),
            "kind_free_text": "hand-written explicit-state / bounded-exhaustive explorer for Python: sharded enumeration of "
                              "inputs, configurations and API-call histories executed on the real code, reference-model and "
                              "invariant oracles, fresh-process replay of every counterexample",
        }],
        "checks": checks,
        "not_applicable": na,
        "notes": "All checks run the implementation itself from /repo's working tree (sys.path[0]=/repo, no bytecode written). "
                 "Known findings: /verif/known_findings.json. Seeded property-breaking changes: /verif/seeded/.",
    }
    with open(os.path.join(VERIF, "MANIFEST.json"), "w") as f:
        json.dump(m, f, indent=1)
    return m


if __name__ == "__main__":
    m = build()
    print("claimed", len(m["checks"]), "not_applicable", len(m["not_applicable"]))
