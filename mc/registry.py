"""Per-property manifest metadata; `python -m mc.registry` rewrites MANIFEST.json."""
import json
import os

VERIF = os.path.dirname(os.path.dirname(os.path.abspath(__file__)))

# id -> (technique, level text, level note, design ref)
_LAY = ("bounded-exhaustive exploration of label multisets x engine configurations, each executed on the real "
        "Force.compute(); ")
CLAIMED = {
    "C01": (_LAY + "all-pairs separation/order invariant",
            "Small-scope exhaustive: every multiset of <=4 (thorough <=5) labels over a 26-39 letter alphabet x 13-27 engine "
            "configurations, plus (thorough) every cluster size 1..200 on parametric families; the oracle is the property's own "
            "inequality evaluated on every pair of every layer. Exhaustive inside the bound, silent about inputs outside the grids.",
            "trusted: the invariant evaluator in mc/layout.py; grids stated in evidence.bounds", "DESIGN.md section 4 C01"),
    "C02": (_LAY + "comparison with an exact isotonic least-squares reference model (PAVA over rationals)",
            "Same exploration as C01; every fitting layer is compared with the exact optimum computed independently in rational "
            "arithmetic (cross-checked against an active-set QP in setup). Exhaustive inside the bound.",
            "trusted: mc/oracles.py iso_place (self-tested against qp_exact in ./setup)", "DESIGN.md section 4 C02"),
    "C03": (_LAY + "bounds/spill invariant incl. per-input exact-fit, just-short and grossly-short bounds",
            "Same exploration as C01 with input-dependent bounds that make a layer fit exactly, miss by one unit, or miss grossly; "
            "invariant on edges vs bounds, full separation and spill otherwise.",
            "trusted: exact fit computation in mc/layout.py", "DESIGN.md section 4 C03"),
    "C04": ("bounded-exhaustive exploration: full product of distributor options x label multisets on the real "
            "Distributor.distribute, plus the engine scope through Force.compute()/getLayers(); structural invariant",
            "Every multiset of <=3 (thorough <=4; <=6 reduced) labels x all 540 distributor option sets, structural invariant "
            "(conservation, contiguity, complete stub chains, payload, stub width, single-layer and capacity clauses), and the "
            "engine's reported layering on the C01 scope.",
            "trusted: the structural invariant in mc/props/c04.py; boundary-ambiguous capacity cases are counted, not judged",
            "DESIGN.md section 4 C04"),
    "C05": ("bounded-exhaustive exploration of complete small problem spaces (DAG and cyclic constraint graphs, weights, "
            "scales, relabellings) on the real vpsc.Solver, decided by an exact weak-duality optimality certificate and an exact "
            "active-set QP reference",
            "Every instance of the stated small spaces is solved by the real solver and checked for termination, feasibility, "
            "cost consistency and optimality: a dual lower bound evaluated in rationals proves the returned cost is within 1e-4 of "
            "optimal; rejections are confirmed by the exact QP. Thorough adds n=5 and families to 60 variables.",
            "trusted: mc/oracles.py (dual bound arithmetic, qp_exact), self-tested against PAVA in ./setup", "DESIGN.md section 4 C05"),
    "C06": ("breadth-first search over API-call histories (set labels / re-present stale nodes / compute / re-configure) on the "
            "real Force engine with fingerprint-deduplicated states and a differential fresh-engine oracle, plus exhaustive "
            "enumeration of input permutations",
            "E-HIST to depth 6 (thorough 9) over 11 operations; every compute() is compared with a fresh engine; E-INPUT: every "
            "permutation of every label multiset (n<=3; n=4 partly in quick) x configs.",
            "trusted: fingerprint only deduplicates (over-fine); reference = the library itself from a fresh start", "DESIGN.md section 4 C06"),
    "C07": ("bounded-exhaustive enumeration of datasets x directions x scales x domains x engine/layout options x back-ends, each "
            "exported by the real Timeline classes, parsed (SVG via ElementTree, TikZ via anchored regexes) and compared with an "
            "exact affine model of the caller's own data",
            "Every dataset sequence of <=2 (thorough <=3) data over a 36-letter alphabet per scale kind x 48 configurations x 2 "
            "back-ends; oracle checks counts, axis, dot/tick positions on one affine time function, link continuity/shape/layer "
            "offsets/end point, box sizes and texts.", "trusted: parsers and geometric model in mc/draw.py, mc/drawcases.py",
            "DESIGN.md section 4 C07"),
    "C08": ("bounded-exhaustive enumeration of datasets x directions x engine options x layer gaps on the real export; rectangle "
            "disjointness/side/layer-order invariant",
            "Every multiset of <=3 (thorough <=4) data over 24 letters x 4 directions x 5 engine option sets x 3 layer gaps.",
            "trusted: mc/draw.py parsers", "DESIGN.md section 4 C08"),
    "C09": ("bounded-exhaustive differential exploration: the same enumerated inputs through both real back-ends, parsed records "
            "compared field by field",
            "C07's dataset scope x 48 configurations with 10 colour/border/tick variants in rotation; SVG and TikZ records must "
            "agree on axis, boxes, links point for point, dots, ticks, colours and texts.", "trusted: mc/draw.py parsers, mc/uni.py",
            "DESIGN.md section 4 C09"),
    "C10": ("level-synchronous breadth-first search over construct/export histories on 3-4 timeline specs, every history replayed "
            "on a purged and re-imported library, states = fingerprints of instances plus all labella module/class globals; "
            "byte comparison with fresh-process references",
            "All histories to depth 6 (thorough 9, or state-space saturation) over new(X,svg)/new(X,tex)/export(X); the oracle is "
            "byte equality with the document produced alone in a fresh interpreter.",
            "trusted: subprocess references; fingerprint over module globals (over-fine)", "DESIGN.md section 4 C10"),
    "C11": ("bounded-exhaustive enumeration of documented input shapes (date ladder x spans x types x sizes; option forms x "
            "directions x algorithms x bounds) on the real constructors and export(); deep-narrow sweep over cluster sizes",
            "No-exception / parses / one mark per datum / degenerate-domain clause on every enumerated shape; thorough adds "
            "200-1000 labels with clusters up to 200; the 250-cluster RecursionError is a recorded known finding.",
            "trusted: parsers; 30 s wall-clock horizon per export", "DESIGN.md section 4 C11"),
    "C12": ("exhaustive grid of domains/ranges/queries against an exact rational affine map, plus breadth-first search over "
            "API-call histories (domain/range/clamp/nice/copy on a pool of scales) with aliasing-aware state fingerprints",
            "E-INPUT: all (domain, range, query) combinations of a 14-value float grid; E-HIST: every call history up to depth 4 "
            "(thorough 6) on <=3 scales, each state rebuilt on fresh real objects; invariants: reported end points map to reported "
            "range, no cross-scale interference.",
            "trusted: Fraction arithmetic; fingerprint only deduplicates, it is over-fine by construction", "DESIGN.md section 4 C12"),
    "C13": ("bounded-exhaustive enumeration of a mantissa x exponent grid of linear domains x every m in 1..100 on the real "
            "ticks()/tickFormat(); tick-set invariants",
            "Every admissible ordered pair from a 133-value (thorough 353) grid x 101 counts; invariants on step form, spacing, "
            "completeness, count, labels.", "trusted: float tolerances stated in the module", "DESIGN.md section 4 C13"),
    "C14": ("bounded-exhaustive enumeration of linear domains (C13 grid) and time domains (calendar-critical start instants x span "
            "ladder x counts x orientations) on the real nice(); widening/roundness invariants with a calendar reference",
            "Linear: the C13 grid x 10 counts; time: month-end/year-end/leap starts x 3 times of day x 38 spans x 6 counts x 2 "
            "orientations; step measured through the public ticks().", "trusted: mc/cal.py (datetime/calendar arithmetic)",
            "DESIGN.md section 4 C14"),
    "C15": ("exhaustive enumeration of ordered pairs of domain instants x ranges x query instants on the real TimeScale against an "
            "exact affine map on epoch milliseconds",
            "All ordered pairs of 41 (thorough 120) instants spanning 1900-2200 x 3 ranges x 11 queries; exact rational reference; "
            "round trip within 1 ms; agreement with LinearScale.", "trusted: datetime arithmetic for naive epoch milliseconds",
            "DESIGN.md section 4 C15"),
    "C16": ("bounded-exhaustive enumeration of time domains (calendar-critical start instants x 42-rung span ladder x counts x "
            "orientations) on the real TimeScale.ticks(); tick invariants with a calendar reference",
            "Every combination of the stated grids; oracle derives the calendar class from the smallest gap and checks every tick "
            "against R-CAL; count and gap-ratio bounds; sub-millisecond-per-tick domains.", "trusted: mc/cal.py", "DESIGN.md section 4 C16"),
    "C17": ("complete enumeration of every day in the year set x 3 instants x 7 units x floor/ceil/round/offset and a grid of "
            "ranges, against a calendar reference model (datetime/timedelta/calendar)",
            "Thorough covers every day 1900-2200; quick covers 9 boundary years; ranges over month-end/week-boundary starts x 5 spans "
            "x steps 1..12.", "trusted: mc/cal.py; week numbering for dt>1 judged numbering-agnostically", "DESIGN.md section 4 C17"),
    "C18": ("exhaustive re-execution of enumerated calendar/scale/tick/nice/export computations under 5 process time zones "
            "(tzset) incl. every minute around the 2021 DST transitions; byte comparison with the UTC run",
            "29,756 (quick) computations x 4 non-UTC zones; any byte of difference is a violation.",
            "trusted: tzset equivalence with a process started under TZ; tzdata of the image", "DESIGN.md section 4 C18"),
    "C19": ("complete enumeration of all 1,112,064 Unicode scalar values in 4 contexts plus all strings up to length 4 (5) over a "
            "mixed alphabet on the real uni2tex (thorough: also through TimelineTex.export), read-back reference",
            "E-FULL over code points, bounded-exhaustive over strings; accent commands are read back as combining marks and "
            "compared with the input under NFD; ASCII must be unchanged.", "trusted: unicodedata of the interpreter; mc/uni.py",
            "DESIGN.md section 4 C19"),
    "C20": ("exhaustive enumeration of the finite domain (all indices 0..10^6, all hex codes) on the real functions",
            "Complete enumeration: every index 0..10^6 against the shortlex sequence, every 3-digit code and (thorough) "
            "every 6-digit code in both cases against integer parsing. Within the stated domain this is total coverage.",
            "trusted: int(s,16), itertools.product; the interpreter", "DESIGN.md section 4 C20"),
}

PENDING = {}


def build():
    checks = []
    for pid in sorted(CLAIMED):
        tech, text, note, ref = CLAIMED[pid]
        checks.append({
            "property_id": pid,
            "quick_cmd": "./check %s --tier quick" % pid,
            "thorough_cmd": "./check %s --tier thorough" % pid,
            "evidence_file": "/verif/evidence/%s.json" % pid,
            "replay_cmd_template": "./check %s --replay {path}" % pid,
            "engine": "mc-explorer",
            "level_claimed": {"category": "model_checking", "text": text, "design_ref": ref},
            "level_note": note,
            "technique": tech,
        })
    allids = [json.loads(l)["id"] for l in open(os.path.join(VERIF, "properties.jsonl"))]
    na = [{"property_id": p, "reason": PENDING.get(p, "check not built yet in this round; planned (DESIGN.md section 8a)")}
          for p in allids if p not in CLAIMED]
    m = {
        "version": 1,
        "setup_cmd": "./setup",
        "hooks": {
            "guard": "LABELLA_PY_VERIF",
            "enable": "no build step: ./check exports LABELLA_PY_VERIF=1 and imports labella from /repo's working tree",
            "baseline_off_cmd": "cd /repo && env -u LABELLA_PY_VERIF /venv/bin/python -m pytest -ra -q -p no:cacheprovider --timeout=900",
            "source_commits": [],
            "add_only": True,
        },
        "engines": [{
            "name": "mc-explorer", "path": "/verif/mc",
            "serves_properties": sorted(CLAIMED),
            "kind_free_text": "hand-written explicit-state / bounded-exhaustive explorer for Python: sharded enumeration of "
                              "inputs, configurations and API-call histories executed on the real code, reference-model and "
                              "invariant oracles, fresh-process replay of every counterexample",
        }],
        "checks": checks,
        "not_applicable": na,
        "notes": "All checks run the implementation itself from /repo's working tree (sys.path[0]=/repo, no bytecode written). "
                 "Known findings: /verif/known_findings.json. Seeded property-breaking changes: /verif/seeded/.",
    }
    with open(os.path.join(VERIF, "MANIFEST.json"), "w") as f:
        json.dump(m, f, indent=1)
    return m


if __name__ == "__main__":
    m = build()
    print("claimed", len(m["checks"]), "not_applicable", len(m["not_applicable"]))
