"""Shared exploration of the layout engine (Force.compute) for C01, C02, C03,
C04(engine half) and C06(permutation half).

E-INPUT: every label multiset over a small alphabet up to a size bound, crossed
with a menu of engine configurations (plus three input-dependent ones), each
executed on fresh real objects.  Deep-narrow sweep: parametric cluster families.
"""
import itertools
from fractions import Fraction as F

from mc import oracles
from mc.core import Acc, Hang, horizon

EPS = 1e-6


def eps_for(items):
    """Absolute slack for float error: 1e-6 plus a few ulps of the coordinate magnitude."""
    mag = max((abs(n.currentPos) for n in items), default=0)
    return EPS + 4e-16 * mag * (len(items) + 2)


POS13 = [x / 2 for x in range(13)]

CONFIGS = [
    {},
    {"minPos": None},
    {"minPos": None, "maxPos": 14},
    {"maxPos": 10},
    {"minPos": 2, "maxPos": 12, "nodeSpacing": 0},
    {"maxPos": 9, "algorithm": "simple"},
    {"maxPos": 10, "density": 0.5, "stubWidth": 2},
    {"maxPos": 6, "minPos": 1, "algorithm": "none"},
    {"maxPos": 8, "nodeSpacing": 1.5, "stubWidth": 0, "density": 1.0},
    {"minPos": -2.5, "maxPos": 7.5, "nodeSpacing": 7, "density": 0.3},
    {"minPos": -8, "maxPos": 0},
    {"layerWidth": 6, "density": 0.5},  # a layer width without an upper bound must not split anything
    {"maxPos": 12, "nodeSpacing": 0.5, "density": 0.3, "stubWidth": 1},  # split without collisions: stubs closer than the line spacing
    {"minPos": F(5, 2), "maxPos": F(21, 2)},  # bounds given as another real-number type
    {"minPos": 3, "maxPos": 3},  # a zero-width band: nothing fits, everything spills
    {"maxPos": 10, "density": 0.5, "stubWidth": 0, "lineSpacing": 0},  # stubs that need no room at all (required gap 0 between two stubs)
    # ---- thorough only
    {"maxPos": 14},
    {"maxPos": 6},
    {"maxPos": 30, "density": 0.3},
    {"nodeSpacing": 0},
    {"nodeSpacing": 0.5, "maxPos": 8, "stubWidth": 2},
    {"nodeSpacing": 7, "minPos": None},
    {"algorithm": "none"},
    {"algorithm": "simple", "maxPos": 6, "stubWidth": 2},
    {"algorithm": "simple", "maxPos": 12, "density": 0.5, "nodeSpacing": 1.5},
    {"minPos": 3.5, "maxPos": 9.25},
    {"minPos": -6, "maxPos": -1},
    {"minPos": 4},
    {"minPos": None, "maxPos": 3, "algorithm": "none"},
    {"maxPos": 10, "density": 0.85, "stubWidth": 0, "nodeSpacing": 3},
]
DEPENDENT = ["fit-exact", "fit-short1", "fit-third"]


def letters(tier, variant=0):
    if variant == 0:
        return [(p, w) for p in POS13 for w in (1, 4)]
    if variant == 1:
        return [(p, w) for p in POS13 for w in (1, 4, 2.5)]
    raise ValueError(variant)


NEAR_TIES = [0.1 + 0.2, 0.3, 0.1 * 7, 1 - 0.3, 3.0, 3.0000000000000004, 2.9999999999999996, 1.5]
NEAR_CONFIGS = [{}, {"algorithm": "none"}, {"maxPos": 6, "minPos": 1, "algorithm": "none"}, {"maxPos": 10},
                {"maxPos": 9, "algorithm": "simple"}, {"minPos": None, "algorithm": "none", "nodeSpacing": 0}]
BIG_BASES = (1.0e9, 1.7e12)
FRAC_CONFIGS = [{}, {"minPos": None}, {"maxPos": 10}, {"maxPos": 10, "stubWidth": 0.5, "nodeSpacing": 1.25},
                {"minPos": 0.25, "maxPos": 9.6, "nodeSpacing": 0.7, "density": 0.6}, {"maxPos": 8, "algorithm": "simple", "stubWidth": 1.5},
                {"minPos": -3.3, "algorithm": "none"}]


def near_tie_letters():
    """Distinct targets a few ulps apart (what a linear scale produces: 0.1+0.2 vs 0.3)."""
    return [(p, w) for p in NEAR_TIES for w in (4, 1)]


def big_letters(base):
    """The small grid moved to epoch-seconds / epoch-milliseconds magnitudes."""
    return [(base + p, w) for p in POS13[::2] for w in (1, 4)]


def big_configs(base):
    return [{}, {"minPos": None}, {"minPos": base - 2, "maxPos": base + 10}, {"minPos": base + 1, "maxPos": base + 7, "algorithm": "none"},
            {"minPos": None, "maxPos": base + 8, "nodeSpacing": 1.5}]


def seeded_letters(seed):
    """Seed-selected extra alphabet, enumerated exhaustively at n <= 3."""
    offs = [0.25, 10, -3, 100.5, 17, -0.75, 1000, 33.5][seed % 8]
    w = [2, 3, 6, 1.5, 5, 0.5][(seed // 8) % 6]
    return [(p + offs, ww) for p in POS13[::2] for ww in (w, 4)]


def dependent_config(name, labels, spacing=3):
    req = sum(w for _, w in labels) + spacing * (len(labels) - 1)
    lo = 1 + (min(p for p, _ in labels) // 1000) * 1000  # bounds stay near the data (walls are soft, see soft_wall_distance)
    if name == "fit-exact":
        hi = lo + req
    elif name == "fit-short1":
        hi = lo + req - 1
    else:
        hi = lo + req / 3.0
    return {"minPos": lo, "maxPos": hi, "algorithm": "none", "nodeSpacing": spacing}


def config_for(ci, labels, nconf, menu=None):
    menu = CONFIGS if menu is None else menu
    if ci < nconf:
        return dict(menu[ci])
    return dependent_config(DEPENDENT[ci - nconf], labels)


# ------------------------------------------------------------------ running
def run_engine(labels, opts, order=None, late_width=False):
    """Fresh nodes, fresh engine, one compute.  Returns (force, nodes).
    late_width: create the node with a placeholder width and assign the real one afterwards - Node.width is a public
    attribute and Timeline.get_nodes() sets it exactly like that (after adding the label padding)."""
    from labella.force import Force
    from labella.node import Node
    seq = labels if order is None else [labels[i] for i in order]
    if late_width:
        nodes = [Node(p, 50 if late_width != 2 else 1, ("d", i)) for i, (p, w) in enumerate(seq)]
        if late_width == 2:
            # ... and the labels were already laid out once with the placeholder width (text re-measured afterwards):
            # whatever the first layout left on the nodes must not reach the second
            f0 = Force(dict(opts))
            f0.nodes(nodes)
            f0.compute()
        for n, (p, w) in zip(nodes, seq):
            n.width = w
    else:
        nodes = [Node(p, w, ("d", i)) for i, (p, w) in enumerate(seq)]
    f = Force(dict(opts))
    f.nodes(nodes)
    f.compute()
    return f, nodes


def layers_of(nodes):
    """Items per layer derived from the parent chains (label in layer k, its
    j-th parent in layer k-j)."""
    L, seen = {}, set()
    for n in nodes:
        k, cur, steps = n.layerIndex, n, 0
        while cur is not None and steps < 1000:
            if id(cur) not in seen:
                seen.add(id(cur))
                L.setdefault(k, []).append(cur)
            cur = cur.parent
            k -= 1
            steps += 1
    return L


def target(n):
    return n.parent.currentPos if n.parent is not None else n.idealPos


def spacing(a, b, ns):
    return getattr(ns, "line", 2) if (a.isStub() and b.isStub()) else ns


def _with_line(ns, line):
    """ns, as a value of its own numeric type that also carries the spacing between two stubs (lineSpacing option)."""
    cls = type("Spacing", (type(ns),), {})
    out = cls(ns)
    out.line = line
    return out


def effective(opts):
    ns = opts.get("nodeSpacing", 3)
    if opts.get("lineSpacing", 2) != 2:
        ns = _with_line(ns, opts["lineSpacing"])
    lo = opts.get("minPos", 0)
    hi = opts.get("maxPos", None)
    return ns, lo, hi


def ordered(items):
    return sorted(items, key=lambda n: (target(n), n.currentPos))


def gaps_of(items, ns):
    return [(a.width + b.width) / 2 + spacing(a, b, ns) for a, b in zip(items, items[1:])]


# ------------------------------------------------------------------ C01
def check_c01_layer(items, ns):
    """All-pairs separation/order invariant on one layer. -> (key, reason)|None"""
    items = ordered(items)
    m = len(items)
    EPS = eps_for(items)
    g = gaps_of(items, ns)
    pre = [0.0]
    for x in g:
        pre.append(pre[-1] + x)
    for i in range(m):
        a = items[i]
        ta, pa = target(a), a.currentPos
        for j in range(i + 1, m):
            b = items[j]
            need = (a.width + b.width) / 2 + spacing(a, b, ns)
            if ns < 1 and j > i + 1:
                need = min(need, pre[j] - pre[i])
            diff = b.currentPos - pa
            if target(b) > ta:
                if diff < max(need - 1, 0) - EPS:
                    kind = "order" if diff < -EPS else "separation"
                    return ("C01:" + kind,
                            "items (target %r, w %r, pos %r, stub %r) and (target %r, w %r, pos %r, stub %r): "
                            "distance %r < required %r - 1"
                            % (ta, a.width, pa, a.isStub(), target(b), b.width, b.currentPos, b.isStub(), diff, need))
            elif abs(diff) < need - 1 - EPS:
                return ("C01:separation",
                        "tied items (target %r, w %r, pos %r) and (w %r, pos %r): distance %r < required %r - 1"
                        % (ta, a.width, pa, b.width, b.currentPos, abs(diff), need))
    return None


# ------------------------------------------------------------------ C02 / C03
def tie_orders(items):
    """Engine-chosen order, plus permutations of sub-groups that are tied in
    target AND reported position but differ in width (order unobservable)."""
    items = ordered(items)
    groups, cur = [], [items[0]]
    for n in items[1:]:
        if target(n) == target(cur[0]) and n.currentPos == cur[0].currentPos:
            cur.append(n)
        else:
            groups.append(cur)
            cur = [n]
    groups.append(cur)
    choices = []
    for grp in groups:
        if len(grp) > 1 and len({(x.width, x.isStub()) for x in grp}) > 1 and len(grp) <= 4:
            choices.append(list(itertools.permutations(grp)))
        else:
            choices.append([tuple(grp)])
    for combo in itertools.product(*choices):
        yield [n for grp in combo for n in grp]


def layer_fit(items, ns, lo, hi):
    """(fits, required, available) for the engine's order; exact."""
    items = ordered(items)
    req = sum(F(x) for x in gaps_of(items, ns)) + F(items[0].width) / 2 + F(items[-1].width) / 2
    if lo is None or hi is None:
        return True, req, None
    avail = F(hi) - F(lo)
    return req <= avail, req, avail


def check_c02_layer(items, ns, lo, hi, info):
    fits, req, avail = layer_fit(items, ns, lo, hi)
    if not fits:
        info["layers_not_fitting"] += 1
        return None
    last = None
    for order in tie_orders(items):
        t = [target(n) for n in order]
        w = [n.width for n in order]
        ok, x, _ = oracles.iso_place(t, w, gaps_of(order, ns), lo, hi)
        if not ok:  # another tie order may change adjacency and so the need
            continue
        worst = max(abs(F(n.currentPos) - xi) for n, xi in zip(order, x))
        if worst <= F(1, 2) + F(eps_for(items)):
            if any(xi != F(ti) for xi, ti in zip(x, t)):
                info["c02_optimum_differs_from_targets"] += 1
                info["nontrivial"] = True
            if (lo is not None and x[0] - F(w[0]) / 2 == F(lo)) or (hi is not None and x[-1] + F(w[-1]) / 2 == F(hi)):
                info["c02_bound_active"] += 1
            if any(n.parent is not None and n.parent.currentPos != n.idealPos for n in order):
                info["c02_tracks_displaced_stub"] += 1
            return None
        last = (order, x, worst)
    if last is None:
        return None
    order, x, worst = last
    return ("C02:not-least-squares",
            "layer items (target,width,stub,reported) %r; exact optimum %r; worst deviation %r > 0.5"
            % ([(target(n), n.width, n.isStub(), n.currentPos) for n in order], [float(v) for v in x], float(worst)))


def check_c03_layer(items, ns, lo, hi, info):
    if lo is None and hi is None:
        return None
    fits, req, avail = layer_fit(items, ns, lo, hi)
    left = min(n.currentLeft() for n in items)
    right = max(n.currentRight() for n in items)
    EPS = eps_for(items)
    if fits:
        info["c03_layers_fit"] += 1
        if avail is not None and req == avail:
            info["c03_exact_fit"] += 1
        ok, x, _ = oracles.iso_place([target(n) for n in ordered(items)], [n.width for n in ordered(items)],
                                     gaps_of(ordered(items), ns), None, None)
        o = ordered(items)
        if (lo is not None and x[0] - F(o[0].width) / 2 < F(lo)) or (hi is not None and x[-1] + F(o[-1].width) / 2 > F(hi)):
            info["c03_bound_active"] += 1
            info["nontrivial"] = True
        if lo is not None and left < lo - 0.5 - EPS:
            return ("C03:lower-bound", "layer fits (needs %s of %s) but left edge %r < minPos %r - 0.5"
                    % (req, avail, left, lo))
        if hi is not None and right > hi + 0.5 + EPS:
            return ("C03:upper-bound", "layer fits (needs %s of %s) but right edge %r > maxPos %r + 0.5"
                    % (req, avail, right, hi))
        return None
    info["c03_layers_not_fitting"] += 1
    info["nontrivial"] = True
    if req - avail <= 1:
        info["c03_barely_not"] += 1
    elif req >= 2 * avail:
        info["c03_grossly_not"] += 1
    bad = check_c01_layer(items, ns)
    if bad:
        return ("C03:overlap-absorbed", "layer does not fit (needs %s of %s) and separation was given up: %s"
                % (req, avail, bad[1]))
    over = max(0, lo - left) + max(0, right - hi)
    if over < float(req - avail) - 1 - EPS:
        return ("C03:excess-not-spilled", "layer needs %s, has %s, but only %r units extend beyond the bounds"
                % (req, avail, over))
    return None


# ------------------------------------------------------------------ C04 (engine half)
def check_c04_engine(force, nodes, info):
    L = layers_of(nodes)
    for k, items in L.items():
        for it in items:
            if it.layerIndex != k:
                return ("C04:layerIndex", "item (ideal %r, stub %r) sits in layer %r by its stub chain but "
                        "reports layerIndex %r" % (it.idealPos, it.isStub(), k, it.layerIndex))
    try:
        got = force.getLayers()
    except Exception as e:
        return ("C04:getLayers-exception", repr(e))
    if got is None:
        return ("C04:getLayers-none", "Force.getLayers() is None after compute()")
    got = [l for l in got]
    while got and not got[-1]:
        got = got[:-1]
    if len(got) != (max(L) + 1 if L else 0) or min(L, default=0) != 0:
        return ("C04:getLayers-mismatch", "engine reports %d layers, stub chains give layers %r" % (len(got), sorted(L)))
    for k, layer in enumerate(got):
        if sorted(map(id, layer)) != sorted(map(id, L.get(k, []))):
            return ("C04:getLayers-mismatch", "layer %d reported by the engine differs from the stub chains" % k)
    if (force.options.get("maxPos") is None or force.options.get("minPos") is None) and len(got) > 1:
        return ("C04:split-without-bound", "the engine has no position bounds (minPos %r, maxPos %r) but reports %d layers"
                % (force.options.get("minPos"), force.options.get("maxPos"), len(got)))
    from mc.props import c04
    bad = c04.check_structure([list(x) for x in got], nodes, force.options.get("stubWidth", 1))
    if bad:
        return bad
    # the capacity clauses at engine level: the layer width is the room between the two position bounds
    fo = force.options
    if fo.get("maxPos") is not None and fo.get("minPos") is not None and fo["maxPos"] > fo["minPos"] \
            and all(k in fo for k in ("density", "algorithm")):  # (a band of width 0 is not a layer width)
        o = {"layerWidth": fo["maxPos"] - fo["minPos"], "density": fo["density"], "nodeSpacing": fo.get("nodeSpacing", 3),
             "algorithm": fo["algorithm"]}
        key, reason, amb = c04.capacity_clauses([(n.idealPos, n.width) for n in nodes], [list(x) for x in got], o)
        info["engine_capacity_clause_cases"] += 1
        if key:
            return (key + ":engine", "bounds [%r, %r], density %r: %s" % (fo["minPos"], fo["maxPos"], fo["density"], reason))
    if len(L) > 1:
        info["multi_layer"] += 1
    if len(L) > 2:
        info["engine_three_or_more_layers"] += 1
    return None


def soft_wall_distance(items, lo, hi):
    """Total distance of the targets from the bounded interval.  The bounds are solver variables of weight 1e10,
    not hard constraints: they yield by about this distance / 1e10 (known finding C03 far-target)."""
    d = 0.0
    for n in items:
        t = target(n)
        if lo is not None and t < lo:
            d += lo - t
        if hi is not None and t > hi:
            d += t - hi
    return d


# ------------------------------------------------------------------ exploring
def evaluate(prop, labels, opts, info, late_width=False):
    """Run one case and apply the oracle of `prop`.  -> (key, reason) | None"""
    try:
        with horizon(60.0):
            force, nodes = run_engine(labels, opts, late_width=late_width)
    except Hang as e:
        return ("HANG", str(e))
    except RecursionError as e:
        return ("EXC:RecursionError", "compute() raised RecursionError")
    except Exception as e:
        return ("EXC:" + type(e).__name__, "compute() raised %r" % (e,))
    ns, lo, hi = effective(force.options)
    L = layers_of(nodes)
    if len(L) > 1:
        info["multi_layer_cases"] += 1
    if any(abs(n.currentPos - target(n)) > 0.5 for items in L.values() for n in items):
        info["displaced_cases"] += 1
        if prop == "C01":
            info["nontrivial"] = True
    for k in sorted(L):
        items = L[k]
        if prop == "C01":
            st = sum(1 for n in items if n.isStub())
            if st >= 2:
                info["c01_layers_with_stub_pairs"] += 1
            if not layer_fit(items, ns, lo, hi)[0]:
                info["c01_layers_not_fitting"] += 1
            bad = check_c01_layer(items, ns)
        elif prop == "C02":
            bad = check_c02_layer(items, ns, lo, hi, info)
        elif prop == "C03":
            bad = check_c03_layer(items, ns, lo, hi, info)
        else:
            bad = None
        if bad and prop in ("C02", "C03") and soft_wall_distance(items, lo, hi) >= 4e9 and bad[0] in (
                "C02:not-least-squares", "C03:lower-bound", "C03:upper-bound"):
            return ("%s:soft-wall-far-target" % prop, bad[1] + " [targets lie %.3g units outside the bounds]"
                    % soft_wall_distance(items, lo, hi))
        if bad:
            return bad
    if prop == "C04":
        return check_c04_engine(force, nodes, info)
    return None


def multisets(alpha, nmax):
    for k in range(1, nmax + 1):
        for c in itertools.combinations_with_replacement(range(len(alpha)), k):
            yield c


def plan_layout(tier, seed, nshards=64):
    parts = []
    if tier == "quick":
        parts.append({"alpha": "v0", "nmax": 4, "nconf": 16})
    else:
        parts.append({"alpha": "v0", "nmax": 5, "nconf": 30})
        parts.append({"alpha": "v0n6", "nmax": 6, "nmin": 6, "nconf": 8})  # six labels on the two-width alphabet, 8 + 3 configs
        parts.append({"alpha": "v1", "nmax": 4, "nconf": 16})
    parts.append({"alpha": "seed", "nmax": 3, "nconf": 16, "seed": seed})
    parts.append({"alpha": "w4", "nmax": 5 if tier == "quick" else 7, "nconf": 16})  # one width: more labels per input
    parts.append({"alpha": "w4s", "nmin": 6, "nmax": 7, "nconf": len(MINI_CONFIGS)})  # 6-7 labels on 7 positions, bounds tight enough for >= 3 layers
    parts.append({"alpha": "frac", "nmax": 3 if tier == "quick" else 4, "nconf": len(FRAC_CONFIGS)})  # fractional widths
    parts.append({"alpha": "near", "nmax": 3 if tier == "quick" else 4, "nconf": len(NEAR_CONFIGS)})
    for base in BIG_BASES:
        parts.append({"alpha": "big", "base": base, "nmax": 3 if tier == "quick" else 4, "nconf": 5})
    shards = [{"kind": "probe"}]
    for p in parts:
        ns = 256 if p["alpha"] == "v0n6" else nshards if p["alpha"] in ("v0", "v1", "w4") else 16 if p["alpha"] == "w4s" else 8
        for r in range(ns):
            shards.append({"kind": "multisets", "part": p, "mod": ns, "rem": r})
    for r in range(8):
        shards.append({"kind": "direct", "nmax": 3 if tier == "quick" else 4, "mod": 8, "rem": r})
    for r in range(16):
        shards.append({"kind": "timeline", "nmax": 3 if tier == "quick" else 4, "mod": 16, "rem": r})
    for r in range(16):
        shards.append({"kind": "skew", "mod": 16, "rem": r})
    for r in range(16):
        shards.append({"kind": "groups", "mod": 16, "rem": r})
    for r in range(8):
        shards.append({"kind": "wallgroups", "mod": 8, "rem": r})
    for r in range(18):
        shards.append({"kind": "manypairs", "mod": 18, "rem": r})
    if tier == "thorough":
        for n0 in range(1, 201, 4):
            shards.append({"kind": "sweep", "ns": list(range(n0, min(201, n0 + 4)))})
    else:
        # deep-narrow slice of the quick tier: clusters deep enough for >= 3 layers, and a few heavy clusters
        for n in range(5, 17):
            shards.append({"kind": "minisweep", "ns": [n]})
        for n in (50, 100, 200):
            shards.append({"kind": "sweep", "ns": [n], "configs": [0, 1, 3], "pitches": [0, 0.5]})
    return shards


def part_alpha(p):
    if p["alpha"] in ("v0", "v0n6"):
        return letters("q", 0)
    if p["alpha"] == "v1":
        return letters("t", 1)
    if p["alpha"] == "w4":
        return [(q, 4) for q in POS13]
    if p["alpha"] == "w4s":
        return [(2 * q, 4) for q in POS13[::2]]
    if p["alpha"] == "frac":
        return [(q, w) for q in POS13[::2] for w in (2.5, 0.5, 3.3)]
    if p["alpha"] == "near":
        return near_tie_letters()
    if p["alpha"] == "big":
        return big_letters(p["base"])
    return seeded_letters(p["seed"])


def part_menu(p):
    if p["alpha"] == "w4s":
        return MINI_CONFIGS
    if p["alpha"] == "frac":
        return FRAC_CONFIGS
    if p["alpha"] == "near":
        return NEAR_CONFIGS
    if p["alpha"] == "big":
        return big_configs(p["base"])
    return CONFIGS


PART_ORDER = {"w4s": 8, "v0n6": 7, "v0": 0, "v1": 1, "seed": 2, "near": 3, "big": 4, "w4": 5, "frac": 6}
SWEEP_WIDTHS = {"all4": lambda i: 4, "alt1-7": lambda i: 1 if i % 2 == 0 else 7, "w2.5": lambda i: 2.5}
WIDE = {"w400": lambda i: 400}  # heavy blocks: the summed displacement against a bound reaches ~1e7
SWEEP_CONFIGS = [{}, {"minPos": None}, {"maxPos": 300}, "fit-exact"]
SWEEP_BIG = {"maxPos": 300, "algorithm": "simple"}  # the overlap distributor is cubic in the cluster size: minutes at n=200


MINI_CONFIGS = [{"maxPos": 10}, {"maxPos": 30, "density": 0.5}, {"maxPos": 14, "stubWidth": 2, "nodeSpacing": 1.5},
                {"minPos": 2, "maxPos": 16, "algorithm": "simple"}]


def minisweep_cases(ns_list):
    """Clusters of 5..16 labels under bounds so tight that they need >= 3 layers."""
    for n in ns_list:
        for wname, wf in SWEEP_WIDTHS.items():
            for pitch in (0, 0.5, 1.5):
                for base in (3, 3.5):
                    labels = [(base + ((i * pitch) % 6), wf(i)) for i in range(n)]
                    for ci, c in enumerate(MINI_CONFIGS):
                        yield {"labels": labels, "opts": dict(c), "family": [n, wname, pitch, ci]}


def sweep_cases(ns_list, configs=None, pitches=None):
    for n in ns_list:
        for wname, wf in list(SWEEP_WIDTHS.items()) + (list(WIDE.items()) if n >= 100 else []):
            ws = [wf(i) for i in range(n)]
            gap = (ws[0] + ws[min(1, n - 1)]) / 2 + 3
            for pitch in (pitches if pitches is not None else (0, 0.5, 1, 3, gap / 2, gap - 0.5)):
                labels = [(10 + i * pitch, ws[i]) for i in range(n)]
                for ci, c in enumerate(SWEEP_CONFIGS):
                    if configs is not None and ci not in configs:
                        continue
                    opts = dependent_config(c, labels) if isinstance(c, str) else dict(c)
                    if n > 60 and c == {"maxPos": 300}:
                        opts = dict(SWEEP_BIG)
                    yield {"labels": labels, "opts": opts, "family": [n, wname, pitch, ci]}


def family_cases(kind, part, nparts):
    """Parametric families that small multisets cannot contain.
    skew:   k narrow labels and one wide label tied on one target (a block that settles far off-centre) plus one label at
            distance d, for every d on a 3-unit grid: whether the outlier is reached depends on a whole-layer quantity.
    groups: two groups of labels at distance d under a band so sparse (density 0.02 .. 0.1) that nearly all of them are
            pushed to farther layers: the nearest layer holds long runs of stubs, kept apart by the line spacing."""
    idx = 0
    if kind == "skew":
        for k in (3, 4, 5, 6):
            for wide in (60, 130, 260):
                for at in range(k + 1):
                    ws = [12] * k
                    ws.insert(at, wide)
                    for d in range(0, 420, 3):
                        idx += 1
                        if idx % nparts != part:
                            continue
                        labels = [(1000, w) for w in ws] + [(1000 + d, 12)]
                        for ci, c in enumerate(({}, {"minPos": None}, {"minPos": None, "nodeSpacing": 0})):
                            yield {"labels": labels, "opts": dict(c), "family": [k, wide, d, ci]}
    elif kind == "wallgroups":
        # a group of labels whose targets lie at or beyond a bound (it ends up stacked against the wall) and a second,
        # larger or equal group a little further inside that collides with it: the block that contains the wall is absorbed
        for n1, n2 in ((7, 10), (9, 14), (8, 8), (12, 5)):
            for w in (4, 12):
                for d in range(0, 130, 5):
                    for side in ("lower", "upper"):
                        idx += 1
                        if idx % nparts != part:
                            continue
                        if side == "lower":
                            labels = [(-30 + (i % 3), w) for i in range(n1)] + [(-30 + d + (i % 2), w) for i in range(n2)]
                            opts = {"minPos": 0}
                        else:
                            labels = [(1030 - (i % 3), w) for i in range(n1)] + [(1030 - d - (i % 2), w) for i in range(n2)]
                            opts = {"minPos": None, "maxPos": 1000}
                        yield {"labels": labels, "opts": dict(opts, algorithm="none"), "family": [n1, w, d, 0]}
    elif kind == "manypairs":
        # a long row: p pairs of slightly overlapping labels of irregular widths spread along the axis (hundreds of merges in
        # one solve), optionally one label whose target lies very far outside the lower bound, and a last label that pokes
        # out of an upper bound that leaves room to spare
        for p in (60, 140, 300):
            for far in (None, -3.0e6, -4.0e4):
                for poke in (2, 0.75):
                    idx += 1
                    if idx % nparts != part:
                        continue
                    specs = [] if far is None else [(far, 10)]
                    x = 100
                    for i in range(p):
                        w1, w2 = 8 + (i * 7) % 5, 9 + (i * 3) % 4
                        need = (w1 + w2) / 2.0 + 3
                        specs.append((x, w1))
                        specs.append((x + need - (2.5 + ((i * 37) % 29) / 8.0), w2))
                        x += 45 + (i * 11) % 7
                    specs.append((x + 40, 10))
                    yield {"labels": specs, "opts": {"minPos": 0, "maxPos": x + 40 + 5 - poke, "nodeSpacing": 3, "density": 1},
                           "family": [p, 0, poke, 0]}
    else:
        for n1, n2 in ((20, 20), (12, 28), (33, 3)):
            for sp in (0, 1, 3):
                for dens in (0.02, 0.1):
                    for d in range(0, 130, 2):
                        idx += 1
                        if idx % nparts != part:
                            continue
                        labels = [(800, 4)] * n1 + [(800 + d, 4)] * n2
                        yield {"labels": labels, "opts": {"minPos": 0, "maxPos": 2000, "density": dens, "nodeSpacing": sp},
                               "family": [n1, sp, d, 0]}


DIRECT_OPTS = [None, {}, {"maxPos": 10}, {"minPos": 2}, {"minPos": None}, {"minPos": None, "maxPos": 10}, {"nodeSpacing": 1.5},
               {"maxPos": 8, "nodeSpacing": 0, "lineSpacing": 5}, {"minPos": 1, "maxPos": 30}]


def evaluate_direct(prop, labels, opts, info):
    """One layer handed to the public function removeOverlap(nodes, options) directly, with a partial (or no) option dict:
    options that are not given take their documented defaults (lower bound 0, no upper bound, spacing 3)."""
    from labella.node import Node
    from labella.removeOverlap import removeOverlap
    nodes = [Node(p, w, ("d", i)) for i, (p, w) in enumerate(labels)]
    try:
        with horizon(60.0):
            removeOverlap(nodes, None if opts is None else dict(opts))
    except Hang as e:
        return ("HANG", str(e))
    except Exception as e:
        return ("EXC:" + type(e).__name__, "removeOverlap raised %r" % (e,))
    eff = {"minPos": 0, "maxPos": None, "nodeSpacing": 3, "lineSpacing": 2}
    eff.update(opts or {})
    ns, lo, hi = effective(eff)
    if any(abs(n.currentPos - target(n)) > 0.5 for n in nodes):
        info["displaced_cases"] += 1
        if prop == "C01":
            info["nontrivial"] = True
    if prop == "C01":
        return check_c01_layer(nodes, ns)
    if prop == "C02":
        return check_c02_layer(nodes, ns, lo, hi, info)
    if prop == "C03":
        return check_c03_layer(nodes, ns, lo, hi, info)
    return None


TIMELINE_OPTS = [{"minPos": None, "maxPos": 10}, {"maxPos": 10}, {"minPos": None, "maxPos": 8, "algorithm": "none"},
                 {"minPos": 2, "maxPos": 12, "nodeSpacing": 1.5}, {}, {"minPos": None}, {"minPos": None, "maxPos": 9, "algorithm": "simple"}]


def evaluate_timeline(prop, labels, opts, info):
    """The same layer oracles at the Timeline entry point: the engine options are handed over as the timeline option
    `labella`; scale, margins and paddings are chosen so that the engine sees exactly the positions and widths given
    (identity scale on [0, 100], no padding); the laid-out nodes are read from the timeline after the export."""
    from labella.scale import LinearScale
    from labella.timeline import TimelineSVG
    data = [{"time": p, "width": w} for p, w in labels]
    zero = {"left": 0, "right": 0, "top": 0, "bottom": 0}
    try:
        with horizon(60.0):
            tl = TimelineSVG(data, {"scale": LinearScale(), "domain": [0, 100], "initialWidth": 100, "initialHeight": 100,
                                    "margin": dict(zero), "labelPadding": dict(zero), "direction": "up", "labella": dict(opts)})
            tl.export()
            nodes = list(tl.nodes)
    except Hang as e:
        return ("HANG", str(e))
    except Exception as e:
        return ("EXC:" + type(e).__name__, "timeline export raised %r" % (e,))
    got, want = sorted((n.idealPos, n.width) for n in nodes), sorted((float(p), w) for p, w in labels)
    if len(got) != len(want) or any(abs(a[0] - b[0]) > 1e-9 or a[1] != b[1] for a, b in zip(got, want)):
        info["timeline_cases_not_judged"] += 1
        return None  # the harness assumption (identity scale, no padding) does not hold: not judged here (C07 owns the geometry)
    ns, lo, hi = effective(opts)
    L = layers_of(nodes)
    info["timeline_cases"] += 1
    if len(L) > 1:
        info["multi_layer_cases"] += 1
    for k in sorted(L):
        items = L[k]
        if prop == "C01":
            bad = check_c01_layer(items, ns)
        elif prop == "C02":
            bad = check_c02_layer(items, ns, lo, hi, info)
        elif prop == "C03":
            bad = check_c03_layer(items, ns, lo, hi, info)
        else:
            bad = None
        if bad:
            return bad
    return None


PROBE = {"labels": [(5.0e9, 4), (5.0e9 + 2, 4)], "opts": {"minPos": 0, "maxPos": 100}}
# below the known finding's threshold the bounds must hold: targets 1e6 .. 1e9 units outside them move a 1e10 wall by < 0.2
NEAR_PROBES = [{"labels": [(d, 4), (d + 2, 4)], "opts": {"minPos": 0, "maxPos": 100}} for d in (1.0e6, -1.0e8, 2.0e8, 1.0e9)] + \
              [{"labels": [(-3.0e5 - 7 * i, 4) for i in range(60)], "opts": {"minPos": 0, "algorithm": "none"}}]


def run_layout_shard(prop, shard):
    acc = Acc()
    if shard["kind"] == "probe":
        # known finding: bounds are soft (weight-1e10 variables); a target 5e9 units outside them pushes them by ~0.5
        info = _Info(acc)
        bad = evaluate(prop, PROBE["labels"], PROBE["opts"], info)
        acc.evals += 1
        acc.states += 1
        acc.trans += 1
        if bad:
            acc.violation(PROBE, bad[0], bad[1], order=(9, 0, 0, 0))
        for pi, pr in enumerate(NEAR_PROBES):
            info = _Info(acc)
            bad = evaluate(prop, pr["labels"], pr["opts"], info)
            acc.evals += 1
            acc.states += 1
            acc.trans += 1
            acc.counters["far_target_cases"] += 1
            if bad:
                acc.violation(pr, bad[0], bad[1], order=(8, pi, 0, 0))
        return acc
    if shard["kind"] == "multisets":
        p = shard["part"]
        alpha = part_alpha(p)
        menu = part_menu(p)
        nconf = p["nconf"]
        for idx, ms in enumerate(multisets(alpha, p["nmax"])):
            if idx % shard["mod"] != shard["rem"] or len(ms) < p.get("nmin", 0):
                continue
            labels = [alpha[i] for i in ms]
            acc.states += 1
            any_nt = False
            for ci in range(nconf + len(DEPENDENT)):
                opts = config_for(ci, labels, nconf, menu)
                info = _Info(acc)
                late = (idx + ci) % 4 == 3  # every 4th case builds its nodes the way Timeline does
                if late and (idx + ci) % 8 == 7:
                    late = 2  # every 8th: laid out once with the placeholder widths first
                bad = evaluate(prop, labels, opts, info, late)
                acc.evals += 1
                acc.trans += 1
                any_nt |= info.nontrivial
                if late:
                    acc.counters["late_width_cases"] += 1
                if late == 2:
                    acc.counters["relayout_after_width_change_cases"] += 1
                if info.nontrivial:
                    acc.nontriv += 1
                if bad:
                    acc.violation({"labels": labels, "opts": opts, "late_width": late}, bad[0], bad[1],
                                  order=(PART_ORDER[p["alpha"]], len(labels), idx, ci))
            if idx % 997 == shard["rem"]:
                acc.sample({"labels": labels, "opts": opts})
        return acc
    if shard["kind"] == "timeline":
        alpha = letters("q", 0)
        for idx, ms in enumerate(multisets(alpha, shard["nmax"])):
            if idx % shard["mod"] != shard["rem"]:
                continue
            labels = [alpha[i] for i in ms]
            acc.states += 1
            for ci, o in enumerate(TIMELINE_OPTS):
                info = _Info(acc)
                bad = evaluate_timeline(prop, labels, o, info)
                acc.evals += 1
                acc.trans += 1
                if bad:
                    acc.violation({"labels": labels, "opts": o, "timeline": True}, bad[0] + ":timeline", bad[1] + " [engine options given as the timeline option labella]",
                                  order=(11, len(labels), idx, ci))
        acc.sample({"labels": labels, "opts": o, "timeline": True})
        return acc
    if shard["kind"] == "direct":
        alpha = letters("q", 0)
        for idx, ms in enumerate(multisets(alpha, shard["nmax"])):
            if idx % shard["mod"] != shard["rem"]:
                continue
            labels = [alpha[i] for i in ms]
            acc.states += 1
            for ci, o in enumerate(DIRECT_OPTS):
                info = _Info(acc)
                bad = evaluate_direct(prop, labels, o, info)
                acc.evals += 1
                acc.trans += 1
                acc.counters["direct_removeOverlap_calls"] += 1
                if info.nontrivial:
                    acc.nontriv += 1
                if bad:
                    acc.violation({"labels": labels, "opts": o, "direct": True}, bad[0] + ":direct", bad[1] + " [removeOverlap called directly]",
                                  order=(10, len(labels), idx, ci))
        acc.sample({"labels": labels, "opts": o, "direct": True})
        return acc
    if shard["kind"] in ("skew", "groups", "wallgroups", "manypairs"):
        gen = family_cases(shard["kind"], shard["rem"], shard["mod"])
    elif shard["kind"] == "minisweep":
        gen = minisweep_cases(shard["ns"])
    else:
        gen = sweep_cases(shard["ns"], shard.get("configs"), shard.get("pitches"))
    for case in gen:
        info = _Info(acc)
        bad = evaluate(prop, case["labels"], case["opts"], info)
        acc.evals += 1
        acc.states += 1
        acc.trans += 1
        acc.counters["sweep_cases"] += 1
        if shard["kind"] in ("skew", "groups", "wallgroups", "manypairs"):
            acc.counters["family_%s_cases" % shard["kind"]] += 1
        if info.nontrivial:
            acc.nontriv += 1
        if bad:
            fam = case["family"]
            acc.violation({"labels": case["labels"], "opts": case["opts"]}, bad[0], bad[1],
                          order=(3, fam[0], 0, fam[3]))
    return acc


class _Info(dict):
    """Per-case counters that feed the shard accumulator."""

    def __init__(self, acc):
        self.acc = acc
        self.nontrivial = False

    def __getitem__(self, k):
        return self.acc.counters[k]

    def __setitem__(self, k, v):
        if k == "nontrivial":
            self.nontrivial = bool(v)
        else:
            self.acc.counters[k] = v


def replay_layout(prop, case):
    labels = [tuple(x) for x in case["labels"]]
    acc = Acc()
    if case.get("direct"):
        bad = evaluate_direct(prop, labels, case["opts"], _Info(acc))
        return (bad[0] + ":direct", bad[1]) if bad else None
    if case.get("timeline"):
        bad = evaluate_timeline(prop, labels, case["opts"], _Info(acc))
        return (bad[0] + ":timeline", bad[1]) if bad else None
    return evaluate(prop, labels, case["opts"], _Info(acc), int(case.get("late_width") or 0))


def snippet_layout(case):
    return ("from labella.force import Force\nfrom labella.node import Node\n"
            "nodes=[Node(p,w) for p,w in %r]\nf=Force(%r); f.nodes(nodes); f.compute()\n"
            "for n in nodes:\n    chain=[]; c=n\n    while c: chain.append((c.layerIndex,c.currentPos,c.width)); c=c.parent\n"
            "    print(n.idealPos, n.width, chain)\nprint(f.getLayers())"
            % ([tuple(x) for x in case["labels"]], case["opts"]))


def bounds(tier, seed):
    return {
        "alphabet": "positions 0..6 step 0.5 x widths {1,4}" + (" (+2.5 at n<=4)" if tier == "thorough" else ""),
        "max_labels": "4 (5 with one width)" if tier == "quick" else "5 (7 with one width)",
        "configs": (15 if tier == "quick" else 29) + len(DEPENDENT),
        "seeded_slice": {"seed": seed, "letters": seeded_letters(seed)[:4], "nmax": 3},
        "near_tie_targets": NEAR_TIES, "big_magnitudes": list(BIG_BASES),
        "sweep": "n=1..200 x 6 pitches x 3 width patterns x 4 configs" if tier == "thorough" else
                 "clusters n=5..16 x 3 widths x 3 pitches x 2 bases x 4 tight-bound configs (>=3 layers); n in {50,100,200} x 2 pitches x 3 configs",
    }


_SCOPE = ("E-INPUT: every multiset of <= N labels over positions 0..6 (step 0.5) x widths {1,4} (thorough: N=5, plus width "
          "2.5 at N<=4) x an engine-configuration menu (10 quick / 24 thorough: bounds absent/lower/upper/both, spacing "
          "0..7, density 0.3..1, stub width 0..2, algorithms overlap/simple/none) + 3 input-dependent configs (exact fit, "
          "1 short, one third) + a seed-selected shifted alphabet at N<=3; thorough adds clusters of 1..200 labels on "
          "arithmetic progressions. Each case = fresh Nodes + fresh Force + compute() on the real code. ")
RULES = {
    "C01": _SCOPE + "Oracle: all-pairs separation/order invariant per layer (stubs from parent chains). Non-trivial: some item "
                    "ends > 0.5 from its target (a conflict was resolved).",
    "C02": _SCOPE + "Oracle: exact bounded isotonic least squares (PAVA over Fractions) per fitting layer, 0.5 slack. "
                    "Non-trivial: the layer optimum differs from the targets.",
    "C03": _SCOPE + "Oracle: edges within bounds +-0.5 when the layer fits; full separation and spill when it does not. "
                    "Non-trivial: a bound is active or the layer does not fit.",
}
REQUIRED = {
    "C01": ("displaced_cases", "multi_layer_cases", "c01_layers_with_stub_pairs", "c01_layers_not_fitting"),
    "C02": ("c02_optimum_differs_from_targets", "c02_bound_active", "c02_tracks_displaced_stub"),
    "C03": ("c03_exact_fit", "c03_barely_not", "c03_grossly_not", "c03_bound_active"),
}
