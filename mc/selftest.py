"""Oracle self-tests (setup_cmd): independent formulations must agree."""
import sys


def main():
    from mc import core
    core.setup_env()
    ok = True
    try:
        from mc import oracles
    except ImportError:
        oracles = None
    if oracles is not None and hasattr(oracles, "selftest"):
        ok = oracles.selftest() and ok
    print("selftest", "ok" if ok else "FAILED")
    return 0 if ok else 1


if __name__ == "__main__":
    sys.exit(main())
