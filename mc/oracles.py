"""Reference models shared by the checks.  Independent of labella; exact
rational arithmetic wherever the property is exact."""
import itertools
from fractions import Fraction as F


# ------------------------------------------------------------------ R-ISO
def pava(t, w):
    """Weighted isotonic (non-decreasing) least squares, exact."""
    blocks = []
    for ti, wi in zip(t, w):
        blocks.append([wi, wi * ti, 1])
        while len(blocks) > 1 and blocks[-2][1] * blocks[-1][0] > blocks[-1][1] * blocks[-2][0]:
            b = blocks.pop()
            blocks[-1][0] += b[0]
            blocks[-1][1] += b[1]
            blocks[-1][2] += b[2]
    out = []
    for sw, swt, c in blocks:
        out += [swt / sw] * c
    return out


def iso_place(targets, widths, gaps, lo, hi):
    """Exact least-squares placement of a chain.

    targets/widths: per item in chain order; gaps[i]: required centre distance
    between item i and i+1; lo/hi: hard bounds on the item *edges* or None.
    Returns (fits, positions or None, required_extent).
    """
    n = len(targets)
    G = [F(0)]
    for g in gaps:
        G.append(G[-1] + F(g))
    y = pava([F(t) - g for t, g in zip(targets, G)], [F(1)] * n)
    A = None if lo is None else F(lo) + F(widths[0]) / 2
    B = None if hi is None else F(hi) - F(widths[-1]) / 2 - G[-1]
    required = G[-1] + F(widths[0]) / 2 + F(widths[-1]) / 2
    if A is not None and B is not None and A > B:
        return False, None, required
    if A is not None:
        y = [max(v, A) for v in y]
    if B is not None:
        y = [min(v, B) for v in y]
    return True, [yi + gi for yi, gi in zip(y, G)], required


# ------------------------------------------------------------------ R-QP
def gauss(M, N):
    M = [row[:] for row in M]
    for c in range(N):
        p = None
        for r in range(c, N):
            if M[r][c] != 0:
                p = r
                break
        if p is None:
            return None
        M[c], M[p] = M[p], M[c]
        inv = 1 / M[c][c]
        M[c] = [v * inv for v in M[c]]
        for r in range(N):
            if r != c and M[r][c] != 0:
                f = M[r][c]
                M[r] = [a - f * b for a, b in zip(M[r], M[c])]
    return [M[i][N] for i in range(N)]


def qp_exact(d, w, s, cons):
    """min sum w_i (x_i-d_i)^2  s.t.  s_r x_r - s_l x_l >= g   (all Fractions).

    Active-set enumeration; returns (x, cost) of the unique optimum or None if
    infeasible.  Exponential in len(cons)."""
    n, m = len(d), len(cons)
    for mask in range(1 << m):
        A = [cons[j] for j in range(m) if mask >> j & 1]
        k = len(A)
        N = n + k
        M = [[F(0)] * (N + 1) for _ in range(N)]
        for i in range(n):
            M[i][i] = 2 * w[i]
            M[i][N] = 2 * w[i] * d[i]
        for j, (l, r, g) in enumerate(A):
            M[l][n + j] += s[l]
            M[r][n + j] -= s[r]
            M[n + j][l] -= s[l]
            M[n + j][r] += s[r]
            M[n + j][N] = g
        sol = gauss(M, N)
        if sol is None:
            continue
        x, lam = sol[:n], sol[n:]
        if any(v < 0 for v in lam):
            continue
        if any(s[r] * x[r] - s[l] * x[l] < g for (l, r, g) in cons):
            continue
        return x, sum(w[i] * (x[i] - d[i]) ** 2 for i in range(n))
    return None


# ------------------------------------------------------------------ R-KKT
def dual_bound(d, w, s, cons, lam):
    n = len(d)
    r = [F(0)] * n
    lin = F(0)
    for (l, rr, g), lm in zip(cons, lam):
        if lm == 0:
            continue
        r[rr] += lm * s[rr]
        r[l] -= lm * s[l]
        lin += lm * (g - (s[rr] * d[rr] - s[l] * d[l]))
    return lin - sum(r[i] * r[i] / (4 * w[i]) for i in range(n))


FOREST_CAP = 20000


def certify(d, w, s, cons, x, tol_abs=F(1, 10 ** 4), tol_rel=F(1, 10 ** 6), feas=F(1, 10 ** 6)):
    """Weak-duality optimality certificate for the reported point x (floats).

    Returns (verdict, info): verdict in {'ok','infeasible','suboptimal','undecided'}.
    Sound in the 'ok' direction for any lambda; 'suboptimal' is only returned
    when every maximal forest of the tight set was tried (else 'undecided')."""
    n = len(d)
    xq = [F(v) for v in x]
    for (l, r, g) in cons:
        lhs = s[r] * xq[r] - s[l] * xq[l]
        if lhs - g < -feas * max(1, abs(g), abs(lhs)):
            return "infeasible", (l, r, float(g), float(lhs))
    cost = sum(w[i] * (xq[i] - d[i]) ** 2 for i in range(n))
    T = [j for j, (l, r, g) in enumerate(cons)
         if s[r] * xq[r] - s[l] * xq[l] - g <= feas * max(1, abs(g))]
    # drop exact duplicates of (l, r) in the tight set: one multiplier suffices
    seen, T2 = set(), []
    for j in T:
        key = (cons[j][0], cons[j][1])
        if key not in seen:
            seen.add(key)
            T2.append(j)
    T = T2
    resid = [2 * w[i] * (xq[i] - d[i]) for i in range(n)]
    best = None
    tried = 0
    for k in range(min(len(T), n - 1), -1, -1):
        for Fs in itertools.combinations(T, k):
            par = list(range(n))

            def find(a):
                while par[a] != a:
                    par[a] = par[par[a]]
                    a = par[a]
                return a
            ok = True
            for j in Fs:
                l, r, g = cons[j]
                a, b = find(l), find(r)
                if a == b:
                    ok = False
                    break
                par[a] = b
            if not ok:
                continue
            tried += 1
            if tried > FOREST_CAP:
                return "undecided", "forest cap"
            lam = {j: None for j in Fs}
            res = resid[:]
            deg = [0] * n
            inc = [[] for _ in range(n)]
            for j in Fs:
                l, r, g = cons[j]
                inc[l].append(j)
                inc[r].append(j)
                deg[l] += 1
                deg[r] += 1
            stack = [i for i in range(n) if deg[i] == 1]
            while stack:
                i = stack.pop()
                if deg[i] != 1:
                    continue
                j = [j for j in inc[i] if lam[j] is None][0]
                l, r, g = cons[j]
                a_i = s[r] if i == r else -s[l]
                lam[j] = res[i] / a_i
                o = l if i == r else r
                a_o = s[r] if o == r else -s[l]
                res[o] -= lam[j] * a_o
                res[i] = 0
                deg[i] -= 1
                deg[o] -= 1
                if deg[o] == 1:
                    stack.append(o)
            lamv = [F(0)] * len(cons)
            for j, v in lam.items():
                lamv[j] = max(v, F(0)) if v is not None else F(0)
            gb = dual_bound(d, w, s, cons, lamv)
            if cost - gb <= tol_abs + tol_rel * abs(cost):
                return "ok", float(cost - gb)
            if best is None or gb > best:
                best = gb
        # only forests of maximal size can certify a non-degenerate optimum, but
        # degenerate (redundant) tight sets need smaller ones too: keep going.
    return "suboptimal", (float(cost), None if best is None else float(best))


def certify_flow(d, w, s, cons, x, tol_abs=F(1, 10 ** 4), tol_rel=F(1, 10 ** 6), feas=F(1, 10 ** 6)):
    """Weak-duality certificate with multipliers found by max-flow.

    Stationarity  2 w_i (x_i - d_i) / s_i = inflow_i - outflow_i  of the multiplier
    'flow' along tight constraints (edge left -> right) is a feasible-flow problem;
    a max-flow gives lambda >= 0, and g(lambda) (exact) is a valid lower bound for
    ANY lambda >= 0.  Complete up to float noise: at an optimum the KKT multipliers
    are such a flow.  Returns (verdict, info) like certify()."""
    n = len(d)
    xq = [F(v) for v in x]
    for (l, r, g) in cons:
        lhs = s[r] * xq[r] - s[l] * xq[l]
        if lhs - g < -feas * max(1, abs(g), abs(lhs)):
            return "infeasible", (l, r, float(g), float(lhs))
    cost = sum(w[i] * (xq[i] - d[i]) ** 2 for i in range(n))
    T = [j for j, (l, r, g) in enumerate(cons)
         if s[r] * xq[r] - s[l] * xq[l] - g <= feas * max(1, abs(g))]
    b = [2 * w[i] * (xq[i] - d[i]) / s[i] for i in range(n)]
    S, Z = n, n + 1
    cap = {}
    adj = [[] for _ in range(n + 2)]

    def add(u, v, c):
        if (u, v) not in cap:
            cap[(u, v)] = F(0)
            cap.setdefault((v, u), F(0))
            adj[u].append(v)
            adj[v].append(u)
        cap[(u, v)] += c
    big = sum(abs(v) for v in b) + 1
    edge_of = {}
    for j in T:
        l, r, g = cons[j]
        if l == r:
            continue
        add(l, r, big)
        edge_of.setdefault((l, r), j)
    heavy = [i for i in range(n) if w[i] >= 10 ** 6]

    def terminal(i, extra=F(0)):
        if b[i] > 0:
            add(i, Z, b[i] if not extra else extra)
        elif b[i] < 0:
            add(S, i, -b[i] if not extra else extra)

    def augment():
        while True:
            prev = {S: None}
            q = [S]
            for u in q:
                if u == Z:
                    break
                for v in adj[u]:
                    if v not in prev and cap[(u, v)] > 0:
                        prev[v] = u
                        q.append(v)
            if Z not in prev:
                return
            f, v = None, Z
            while prev[v] is not None:
                c = cap[(prev[v], v)]
                f = c if f is None or c < f else f
                v = prev[v]
            v = Z
            while prev[v] is not None:
                cap[(prev[v], v)] -= f
                cap[(v, prev[v])] += f
                used[(prev[v], v)] = used.get((prev[v], v), F(0)) + f
                used[(v, prev[v])] = used.get((v, prev[v]), F(0)) - f
                v = prev[v]
    used = {}
    # light variables first, then heavy ones at their measured residual, and only
    # then the float-noise allowance of the heavy residuals (2*w*(x-d) with w=1e10
    # amplifies the last bits of x), so the allowance never starves a light variable
    for i in range(n):
        if i not in heavy:
            terminal(i)
    augment()
    for i in heavy:
        terminal(i)
    augment()
    for i in heavy:
        terminal(i, F(1, 1000) * (1 + abs(b[i])))
    augment()
    lam = [F(0)] * len(cons)
    for (l, r), j in edge_of.items():
        fl = used.get((l, r), F(0))  # net flow l->r (negative: carried by the antiparallel edge)
        if fl > 0:
            lam[j] = fl
    gb = dual_bound(d, w, s, cons, lam)
    if cost - gb <= tol_abs + tol_rel * abs(cost):
        return "ok", float(cost - gb)
    return "suboptimal", (float(cost), float(gb))


def chain_opt_cost(d, w, gaps):
    """Exact optimum of a pure chain x_{i+1}-x_i >= gaps[i] with weights (PAVA)."""
    G = [F(0)]
    for g in gaps:
        G.append(G[-1] + F(g))
    y = pava([F(di) - g for di, g in zip(d, G)], [F(v) for v in w])
    x = [yi + gi for yi, gi in zip(y, G)]
    return x, sum(F(wi) * (xi - F(di)) ** 2 for wi, xi, di in zip(w, x, d))


def selftest():
    """R-ISO vs R-QP vs R-KKT on every chain instance of a small scope."""
    n_cases = 0
    for n in (1, 2, 3, 4):
        for d in itertools.product((0, 1, 3), repeat=n):
            for gs in itertools.product((0, 2), repeat=n - 1):
                for w in ([1] * n, [1] * (n - 1) + [100], [F(1, 100)] + [1] * (n - 1)):
                    dq = [F(v) for v in d]
                    wq = [F(v) for v in w]
                    sq = [F(1)] * n
                    cons = [(i, i + 1, F(g)) for i, g in enumerate(gs)]
                    x1, c1 = chain_opt_cost(dq, wq, gs)
                    x2, c2 = qp_exact(dq, wq, sq, cons)
                    if x1 != x2 or c1 != c2:
                        print("selftest: PAVA != QP", d, gs, w)
                        return False
                    v, info = certify(dq, wq, sq, cons, [float(v) for v in x2])
                    v2, info2 = certify_flow(dq, wq, sq, cons, [float(v) for v in x2])
                    if v != "ok" or v2 != "ok":
                        print("selftest: certificate rejects the exact optimum", d, gs, w, v, info)
                        return False
                    if c2 > 0:
                        bad = [float(v) for v in x2]
                        bad[-1] += 1.0  # feasible, strictly worse
                        v, info = certify(dq, wq, sq, cons, bad)
                        # moving the last variable right keeps feasibility; cost changes
                        xb = [F(b) for b in bad]
                        cb = sum(wq[i] * (xb[i] - dq[i]) ** 2 for i in range(n))
                        v2, _ = certify_flow(dq, wq, sq, cons, bad)
                        if cb > c2 + F(1, 1000) and (v == "ok" or v2 == "ok"):
                            print("selftest: certificate accepts a suboptimal point", d, gs, w)
                            return False
                    n_cases += 1
    # bounded chain: clipping == QP with wall constraints modelled as huge weights
    fits, x, req = iso_place([1, 1.5, 2], [4, 4, 1], [7, 5.5], 0, 20)
    assert fits and x[0] >= 2 and x[1] - x[0] >= 7 and x[2] - x[1] >= F(11, 2), x
    print("selftest: %d chain instances, PAVA == QP == certified" % n_cases)
    return True
