"""Explorer core: sharded exhaustive exploration on the real code, evidence,
replay artefacts, known findings, determinism confirmation.

Pure standard library.  The library under test is imported from the current
working tree of REPO (default /repo); nothing is written there.
"""
import collections
import datetime as _dt
import fractions
import hashlib
import importlib
import json
import multiprocessing as mp
import os
import signal
import subprocess
import sys
import time
import traceback

VERIF = os.path.dirname(os.path.dirname(os.path.abspath(__file__)))
REPO = os.environ.get("VERIF_REPO", "/repo")
GUARD = "LABELLA_PY_VERIF"
MAXV = 8  # violations kept per shard


def setup_env():
    """Pin every source of nondeterminism we own and point imports at REPO."""
    os.environ["TZ"] = "UTC"
    time.tzset()
    os.environ[GUARD] = "1"
    sys.dont_write_bytecode = True
    if REPO in sys.path:
        sys.path.remove(REPO)
    sys.path.insert(0, REPO)
    sys.setrecursionlimit(1000)


def set_tz(name):
    os.environ["TZ"] = name
    time.tzset()


def purge_labella():
    """In-process equivalent of a fresh interpreter for the library."""
    for k in [k for k in sys.modules if k == "labella" or k.startswith("labella.")]:
        del sys.modules[k]


# ---------------------------------------------------------------- JSON codec
def enc(o):
    if isinstance(o, (str, int, bool, type(None))):
        return o
    if isinstance(o, float):
        if o != o or o in (float("inf"), float("-inf")):
            return {"__f__": repr(o)}
        return o
    if isinstance(o, fractions.Fraction):
        return {"__q__": [o.numerator, o.denominator]}
    if isinstance(o, _dt.datetime):
        if o.fold:
            return {"__dtfold__": o.isoformat()}
        return {"__dt__": o.isoformat()}
    if isinstance(o, _dt.date):
        return {"__d__": o.isoformat()}
    if isinstance(o, _dt.time):
        return {"__t__": o.isoformat()}
    if isinstance(o, _dt.timedelta):
        return {"__td__": o / _dt.timedelta(microseconds=1)}
    if isinstance(o, (list, tuple)):
        return [enc(x) for x in o]
    if isinstance(o, dict):
        return {"__m__": [[enc(k), enc(v)] for k, v in o.items()]} if any(
            not isinstance(k, str) for k in o
        ) else {k: enc(v) for k, v in o.items()}
    if isinstance(o, (set, frozenset)):
        return [enc(x) for x in sorted(o, key=repr)]
    if isinstance(o, bytes):
        return {"__b__": o.decode("latin-1")}
    return {"__repr__": repr(o)}


def dec(o):
    if isinstance(o, list):
        return [dec(x) for x in o]
    if isinstance(o, dict):
        if len(o) == 1:
            (k, v), = o.items()
            if k == "__f__":
                return float(v)
            if k == "__q__":
                return fractions.Fraction(v[0], v[1])
            if k == "__dt__":
                return _dt.datetime.fromisoformat(v)
            if k == "__dtfold__":
                return _dt.datetime.fromisoformat(v).replace(fold=1)
            if k == "__d__":
                return _dt.date.fromisoformat(v)
            if k == "__t__":
                return _dt.time.fromisoformat(v)
            if k == "__td__":
                return _dt.timedelta(microseconds=v)
            if k == "__m__":
                return {_h(dec(a)): dec(b) for a, b in v}
            if k == "__b__":
                return v.encode("latin-1")
            if k == "__repr__":
                return v
        return {k: dec(v) for k, v in o.items()}
    return o


def _h(x):
    return tuple(_h(i) for i in x) if isinstance(x, list) else x


def freeze(o):
    """Lists -> tuples, recursively (cases travel as JSON, code likes tuples)."""
    if isinstance(o, list):
        return tuple(freeze(x) for x in o)
    if isinstance(o, dict):
        return {k: freeze(v) for k, v in o.items()}
    return o


# ---------------------------------------------------------------- state fingerprint
import types as _types


def fingerprint(roots, skip_keys=()):
    """Canonical serialisation of the reachable object graph, aliasing included
    (objects are numbered in first-visit order; a second visit prints a back
    reference).  Deliberately over-fine: states that differ only in hidden
    sharing must not be merged."""
    memo, out = {}, []
    stack = [("v", roots)]
    while stack:
        tag, o = stack.pop()
        if tag == "s":
            out.append(o)
            continue
        if isinstance(o, (int, float, str, bool, type(None), bytes)):
            out.append(repr(o))
            continue
        oid = id(o)
        if oid in memo:
            out.append("@%d" % memo[oid])
            continue
        memo[oid] = len(memo)
        if isinstance(o, (list, tuple)):
            out.append("[" + type(o).__name__)
            stack.append(("s", "]"))
            for x in reversed(o):
                stack.append(("v", x))
        elif isinstance(o, dict):
            out.append("{")
            stack.append(("s", "}"))
            for k in sorted(o, key=repr, reverse=True):
                if k in skip_keys:
                    continue
                stack.append(("v", o[k]))
                stack.append(("s", repr(k)))
        elif isinstance(o, (set, frozenset)):
            out.append("S" + repr(sorted(map(repr, o))))
        elif isinstance(o, (_types.FunctionType, _types.LambdaType)):
            out.append("F:%s:%d" % (o.__code__.co_name, o.__code__.co_firstlineno))
            for c in reversed(o.__closure__ or ()):
                try:
                    stack.append(("v", c.cell_contents))
                except ValueError:
                    stack.append(("s", "<empty cell>"))
        elif isinstance(o, _types.MethodType):
            out.append("M:" + o.__func__.__name__)
            stack.append(("v", o.__self__))
        elif isinstance(o, (_dt.datetime, _dt.date, _dt.time, _dt.timedelta)):
            out.append(repr(o))
        elif isinstance(o, type) and getattr(o, "__module__", "").startswith("labella"):
            out.append("C:" + o.__name__)
            for k in sorted(vars(o), reverse=True):
                if not (k.startswith("__") and k.endswith("__")):
                    stack.append(("v", vars(o)[k]))
                    stack.append(("s", k))
        elif isinstance(o, (classmethod, staticmethod)):
            stack.append(("v", o.__func__))
        elif isinstance(o, (type, _types.ModuleType, _types.BuiltinFunctionType)):
            out.append("T:" + getattr(o, "__name__", "?"))
        elif hasattr(o, "__dict__"):
            out.append("O:" + type(o).__name__)
            stack.append(("v", o.__dict__))
        else:
            out.append("?" + type(o).__name__)
    return "|".join(out)


def labella_globals():
    """Module-level state of every loaded labella module (for fingerprints)."""
    out = {}
    for name in sorted(sys.modules):
        if name == "labella" or name.startswith("labella."):
            m = sys.modules[name]
            if m is None:
                continue
            out[name] = {k: v for k, v in vars(m).items() if not (k.startswith("__") and k.endswith("__"))}
    return out


def fp_hash(roots, skip_keys=()):
    return int(hashlib.sha1(fingerprint(roots, skip_keys).encode()).hexdigest()[:15], 16)


# ---------------------------------------------------------------- hang guard
class Hang(Exception):
    pass


def _on_alarm(signum, frame):
    raise Hang("step horizon exceeded (CPU-time alarm)")


class horizon:
    """Abort one execution that does not come back ('make waiting visible').

    The budget is CPU time of this process (ITIMER_PROF), not wall-clock time,
    so a loaded machine cannot turn a slow-but-finite execution into an alarm."""

    def __init__(self, seconds=5.0):
        self.seconds = seconds

    def __enter__(self):
        signal.signal(signal.SIGPROF, _on_alarm)
        signal.setitimer(signal.ITIMER_PROF, self.seconds)

    def __exit__(self, *a):
        signal.setitimer(signal.ITIMER_PROF, 0)
        return False


# ---------------------------------------------------------------- accumulator
class TooMany(Exception):
    """A shard has seen enough violations: stop exploring it (the first counterexamples are what matters, and a
    change that makes most executions hang must not turn a check into an hours-long run)."""


VIOLATION_LIMIT = 500
HANG_LIMIT = 3


class Acc:
    """What one shard measured."""

    def __init__(self):
        self.evals = 0
        self.states = 0
        self.trans = 0
        self.nontriv = 0
        self.counters = collections.Counter()
        self.viol = []
        self.nviol = 0
        self.samples = []
        self.outcomes = set()
        self.caps = []
        self.keycount = collections.Counter()
        self.state_set = set()

    def violation(self, case, key, reason, order=None):
        self.nviol += 1
        self.keycount[key] += 1
        if self.nviol >= VIOLATION_LIMIT or (key.startswith("HANG") and self.keycount[key] >= HANG_LIMIT):
            if len(self.viol) < MAXV:
                self.viol.append({"case": enc(case), "key": key, "reason": reason,
                                  "ord": None if order is None else list(order)})
            self.caps.append("shard stopped after %d violations (%s)" % (self.nviol, key))
            raise TooMany(self)
        if len(self.viol) < MAXV or not any(v["key"] == key for v in self.viol):
            self.viol.append({"case": enc(case), "key": key, "reason": reason,
                              "ord": None if order is None else list(order)})

    def sample(self, case, every=1):
        if len(self.samples) < 2:
            self.samples.append(enc(case))

    def outcome(self, o):
        if len(self.outcomes) < 100000:
            self.outcomes.add(o if isinstance(o, (int, str)) else hash(o))

    def result(self):
        return {
            "evals": self.evals, "states": self.states, "trans": self.trans,
            "nontriv": self.nontriv, "counters": dict(self.counters),
            "viol": self.viol, "nviol": self.nviol, "samples": self.samples,
            "outcomes": self.outcomes, "caps": self.caps, "keycount": dict(self.keycount), "state_set": self.state_set,
        }


# ---------------------------------------------------------------- workers
MEM_LIMIT = int(os.environ.get("VERIF_MEM_LIMIT_GB", "6")) * 2 ** 30


def _worker_init():
    setup_env()
    # a change that makes the library build an unbounded list must end in MemoryError inside that one
    # execution (reported as a violation), not in the kernel killing the worker
    import resource
    try:
        resource.setrlimit(resource.RLIMIT_AS, (MEM_LIMIT, MEM_LIMIT))
    except (ValueError, OSError):
        pass
    if os.environ.get("VERIF_ANCHORS", "1") != "0":
        from mc import anchors
        anchors.start(REPO)


def _anchor_hits():
    try:
        from mc import anchors
        return anchors.hits()
    except Exception:
        return set()


def _run_one(arg):
    modname, idx, shard = arg
    mod = importlib.import_module(modname)
    t0 = time.time()
    try:
        res = mod.run_shard(shard)
    except TooMany as e:
        res = e.args[0]
    if isinstance(res, Acc):
        res = res.result()
    res["idx"] = idx
    res["wall"] = time.time() - t0
    res["lines"] = _anchor_hits()
    return res


def _expand_one(arg):
    modname, idx, ctx, hist = arg
    mod = importlib.import_module(modname)
    acc = Acc()
    try:
        succ = mod.hist_expand(ctx, hist, acc)
    except TooMany:
        succ = []
    res = acc.result()
    res["idx"] = idx
    res["succ"] = succ
    res["lines"] = _anchor_hits()
    return res


def run_levels(modname, mod, tier, seed, pool, results):
    """Level-synchronous breadth-first search over operation histories.

    The frontier of one level is expanded in parallel (each expansion replays its
    history on fresh real objects and tries every enabled operation); successor
    states are deduplicated centrally by fingerprint, in frontier order, so the
    search, the counts and the first counterexample do not depend on the number
    of workers.  Returns the number of distinct states."""
    init = mod.hist_init(tier, seed)
    seen = set(init.get("root_fps", []))
    frontier = [list(h) for h in init["roots"]]
    base = 10 ** 6
    level = 0
    while frontier and level < init["depth"]:
        args = [(modname, base + i, init["ctx"], h) for i, h in enumerate(frontier)]
        if pool is None:
            out = [_expand_one(a) for a in args]
        else:
            out = list(pool.imap(_expand_one, args, chunksize=max(1, len(args) // 64)))
        nxt = []
        for r in out:
            for fp, nh in r.pop("succ"):
                if fp not in seen:
                    seen.add(fp)
                    nxt.append(nh)
            results.append(r)
        base += len(args) + 1
        frontier = nxt
        level += 1
        cap = init.get("max_states", 40000)
        if len(seen) > cap and frontier and level < init["depth"]:
            # a state space that keeps growing (e.g. the fingerprint contains a value that changes on every call)
            # must not turn the check into an hours-long run: stop, and say so in the evidence
            results.append({"idx": base, "evals": 0, "states": 0, "trans": 0, "nontriv": 0, "nviol": 0, "counters": {},
                            "viol": [], "samples": [], "outcomes": set(), "keycount": {}, "state_set": set(),
                            "caps": ["history search stopped after level %d: %d states exceed the cap of %d" % (level, len(seen), cap)]})
            break
    return len(seen), level


class _Pool:
    """imap over a ProcessPoolExecutor (which, unlike multiprocessing.Pool, notices a dead worker)."""

    def __init__(self, ex):
        self.ex = ex

    def imap(self, fn, args, chunksize=1):
        return self.ex.map(fn, args, chunksize=chunksize)


def _anchor_report(pid, line_hits):
    try:
        from mc import anchors
        return anchors.report(pid, REPO, line_hits)
    except Exception as e:  # evidence nicety only
        return [{"error": repr(e)}]


def load_known():
    p = os.path.join(VERIF, "known_findings.json")
    if not os.path.exists(p):
        return []
    with open(p) as f:
        return json.load(f).get("findings", [])


def digest(obj):
    return hashlib.sha1(json.dumps(obj, sort_keys=True).encode()).hexdigest()[:16]


def write_replay(pid, v, mod, shard=None):
    d = os.path.join(VERIF, "replays", pid)
    os.makedirs(d, exist_ok=True)
    body = {"property": pid, "key": v["key"], "reason": v["reason"], "case": v["case"]}
    if shard is not None:
        body["shard"] = enc(shard)  # the cases that ran before it in the same process, should the failure depend on them
    if hasattr(mod, "snippet"):
        try:
            body["snippet"] = mod.snippet(dec(v["case"]))
        except Exception as e:  # snippet is a convenience only
            body["snippet"] = "# (no snippet: %r)" % (e,)
    path = os.path.join(d, digest(body["case"]) + ".json")
    with open(path, "w") as f:
        json.dump(body, f, indent=1, sort_keys=True)
    return path


def replay_file(pid, path):
    """Re-execute exactly one stored case on the real code, no explorer."""
    setup_env()
    mod = importlib.import_module("mc.props." + pid.lower())
    with open(path) as f:
        body = json.load(f)
    case = dec(body["case"])
    out = mod.replay(case)
    if out is None and body.get("shard") is not None and hasattr(mod, "run_shard"):
        # The case passes on its own.  Results must not depend on earlier calls either: re-run the cases of its
        # shard in order in this fresh process; if the same violation reappears it is real (hidden state in the
        # library carried from one call to the next), and deterministic.
        try:
            res = mod.run_shard(dec(body["shard"]))
        except TooMany as e:
            res = e.args[0]
        res = res.result() if isinstance(res, Acc) else res
        hit = [v for v in res["viol"] if v["key"] == body["key"]]
        same = [v for v in hit if v["case"] == body["case"]]
        if hit:
            v = (same or hit)[0]
            print("REPLAY-VIOLATION property=%s key=%s" % (pid, v["key"]))
            print("  reason: %s" % (v["reason"],))
            print("  note: passes when executed alone; fails after the preceding cases of its shard ran in the same process")
            return 1
    if out is None:
        print("REPLAY-OK property=%s" % pid)
        return 0
    key, reason = out
    print("REPLAY-VIOLATION property=%s key=%s" % (pid, key))
    print("  reason: %s" % (reason,))
    return 1


def confirm(pid, path):
    """Fresh-process re-execution, twice; must agree with itself."""
    outs = []
    for _ in range(2):
        env = dict(os.environ)
        env["PYTHONHASHSEED"] = "0"
        p = subprocess.run(
            [sys.executable, "-m", "mc.cli", pid, "--replay", path],
            cwd=VERIF, env=env, capture_output=True, text=True, timeout=3600,
        )
        outs.append((p.returncode, p.stdout.split("\n")[0]))
        if p.returncode not in (0, 1):
            sys.stderr.write(p.stdout + p.stderr)
    return outs


def run_check(pid, tier, seed, workers=None):
    setup_env()
    t0 = time.time()
    modname = "mc.props." + pid.lower()
    mod = importlib.import_module(modname)
    shards = mod.plan(tier, seed) if hasattr(mod, "plan") else []
    workers = workers or int(os.environ.get("VERIF_WORKERS", "0")) or min(16, os.cpu_count() or 1)
    workers = max(1, workers)
    args = [(modname, i, s) for i, s in enumerate(shards)]
    hist_states = hist_levels = 0
    if workers == 1:
        results = [_run_one(a) for a in args]
        if hasattr(mod, "hist_init"):
            hist_states, hist_levels = run_levels(modname, mod, tier, seed, None, results)
    else:
        import concurrent.futures as cf
        ctx = mp.get_context("fork")
        try:
            with cf.ProcessPoolExecutor(workers, mp_context=ctx, initializer=_worker_init) as ex:
                results = list(ex.map(_run_one, args, chunksize=1))
                if hasattr(mod, "hist_init"):
                    hist_states, hist_levels = run_levels(modname, mod, tier, seed, _Pool(ex), results)
        except cf.process.BrokenProcessPool as e:
            # a worker process died (killed, segfault): the run is not a verdict
            print("WORKER-DIED property=%s: a worker process terminated abruptly (%s); no verdict" % (pid, e))
            return 2
    results.sort(key=lambda r: r["idx"])

    tot = collections.Counter()
    counters = collections.Counter()
    outcomes = set()
    keycount = collections.Counter()
    state_union = set()
    line_hits = set()
    viol, samples, caps = [], [], []
    for r in results:
        for k in ("evals", "states", "trans", "nontriv", "nviol"):
            tot[k] += r[k]
        counters.update(r["counters"])
        keycount.update(r.get("keycount", {}))
        state_union |= r.get("state_set", set())
        line_hits |= r.get("lines", set())
        outcomes |= r["outcomes"]
        for v in r["viol"]:
            v["shard"] = r["idx"]
            viol.append(v)
        caps += r["caps"]
        samples += r["samples"][:1]

    if len(samples) > 6:  # a few cases spread over the whole exploration (first, last, evenly in between)
        samples = [samples[round(i * (len(samples) - 1) / 5)] for i in range(6)]
    tot["states"] += len(state_union) + hist_states  # E-HIST: distinct fingerprints
    # canonical order: simplest case first, independent of the worker count
    viol.sort(key=lambda v: (v.get("ord") is None, v.get("ord") or [], v["shard"]))
    # ---- triage: known findings vs. violations
    known = [k for k in load_known() if k.get("property") == pid and k.get("status") == "open"]
    reported, known_hit, unknown = [], {}, []
    seen_keys = set()
    for v in viol:  # canonical order: shard order, then position inside shard
        if v["key"] in seen_keys:
            continue
        seen_keys.add(v["key"])
        hit = next((k for k in known if k["key"] == v["key"]), None)
        if hit:
            known_hit[v["key"]] = hit
        else:
            unknown.append(v)
    for key, k in known_hit.items():
        print("KNOWN-FINDING: property=%s %s" % (pid, k["what"]))
    status = 0
    for v in unknown[:3]:
        path = write_replay(pid, v, mod, shards[v["shard"]] if 0 <= v.get("shard", -1) < len(shards) else None)
        outs = confirm(pid, path)
        if outs[0] != outs[1] or outs[0][0] != 1 or ("key=%s" % v["key"]) not in outs[0][1]:
            print("NONDETERMINISM property=%s replay=%s explorer-key=%s fresh-process=%r"
                  % (pid, path, v["key"], outs))
            status = max(status, 2)
            continue
        print("VIOLATION property=%s replay=%s" % (pid, path))
        print("  key: %s" % v["key"])
        print("  reason: %s" % (v["reason"],))
        reported.append(path)
        status = max(status, 1)

    # ---- non-vacuity self check
    needs = getattr(mod, "REQUIRED_COUNTERS", ())
    if not (unknown or known_hit):
        for name in needs:
            if counters.get(name, 0) <= 0:
                print("VACUOUS property=%s counter %s is zero" % (pid, name))
                status = max(status, 2)

    wall = time.time() - t0
    cov = {
        "states": tot["states"],
        "transitions": tot["trans"],
        "traces_validated_against_impl": tot["evals"],
        "evaluations": tot["evals"],
        "distinct_nontrivial": tot["nontriv"],
        "rule": getattr(mod, "RULE", ""),
        "samples": samples or [None],
        "exhaustive": not caps,
        "caps_hit": caps,
        "counters": dict(sorted(counters.items())),
        "distinct_outcomes": len(outcomes),
        "shards": len(shards),
        "history_search": {"distinct_states": hist_states, "levels_completed": hist_levels} if hist_states else None,
        "workers": workers,
        "bounds": mod.bounds(tier, seed) if hasattr(mod, "bounds") else {},
        "known_findings_hit": sorted(known_hit),
        "anchor_lines": _anchor_report(pid, line_hits),
        "explanation": "every trace is an execution of the implementation itself; there is no separate model",
    }
    ev = {
        "property_id": pid, "tier": tier, "seed": seed, "level": "model_checking",
        "coverage": cov, "assumptions": getattr(mod, "ASSUMPTIONS", []),
        "wall_s": round(wall, 2), "violations": len(unknown),
    }
    evdir = os.environ.get("VERIF_EVIDENCE_DIR") or os.path.join(VERIF, "evidence")  # override: mutant evaluation only
    os.makedirs(evdir, exist_ok=True)
    with open(os.path.join(evdir, pid + ".json"), "w") as f:
        json.dump(ev, f, indent=1, sort_keys=True)
    print("%s %s: evals=%d states=%d transitions=%d nontrivial=%d outcomes=%d viol=%d wall=%.1fs"
          % (pid, tier, tot["evals"], tot["states"], tot["trans"], tot["nontriv"],
             len(outcomes), tot["nviol"], wall))
    for k, v in sorted(counters.items()):
        print("   %-38s %d" % (k, v))
    for k, v in sorted(keycount.items()):
        print("   violation-key %-40s %d" % (k, v))
    if reported:
        # a violation confirmed twice in fresh processes is the verdict, whatever else (a hang that does not reproduce
        # on a less loaded machine, an unconfirmed second key) was seen in the same run
        return 1
    return status


def chunks(seq, n):
    """Deterministically split a list into <= n contiguous chunks."""
    seq = list(seq)
    n = max(1, min(n, len(seq)))
    q, r = divmod(len(seq), n)
    out, i = [], 0
    for k in range(n):
        j = i + q + (1 if k < r else 0)
        out.append(seq[i:j])
        i = j
    return out
