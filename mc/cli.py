"""./check <ID> [--tier quick|thorough] [--replay path] [--workers n]"""
import argparse
import os
import sys

from mc import core


def main(argv=None):
    ap = argparse.ArgumentParser()
    ap.add_argument("pid")
    ap.add_argument("--tier", default=os.environ.get("VERIF_TIER") or "quick",
                    choices=["quick", "thorough"])
    ap.add_argument("--replay")
    ap.add_argument("--workers", type=int, default=0)
    a = ap.parse_args(argv)
    pid = a.pid.upper()
    if a.replay:
        return core.replay_file(pid, a.replay)
    try:
        seed = int(os.environ.get("VERIF_SEED", "0") or 0)
    except ValueError:
        seed = 0
    return core.run_check(pid, a.tier, seed, a.workers or None)


if __name__ == "__main__":
    sys.exit(main())
