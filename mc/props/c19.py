"""C19 - label text reaches TeX intact.  E-FULL over code points + E-INPUT strings."""
import itertools
import re

from mc import uni
from mc.core import Acc

ID = "C19"
RULE = ("E-FULL: every Unicode scalar value c (1,112,064) in the 4 contexts c, 'a'+c, c+'b', 'a'+c+'b' through the real "
        "labella.tex.uni2tex; every ordered pair of the 112 combining diacritical marks U+0300-U+036F on 5 bases with and without a following letter; E-INPUT: every string of length <= 4 (thorough <= 5) over a 12 (16) letter alphabet mixing ASCII, "
        "TeX specials (incl. %, #, $, _), precomposed letters, listed/unlisted combining marks, compatibility characters, CJK, emoji; every string of length <= 2 (thorough <= 3) also as a label text through TimelineTex.export() (text found by the default textFn, by textFn=None and by a caller-supplied accessor), read from the \\def\\text lines. Oracle R-UNI: no "
        "exception, ASCII unchanged, accent commands read back as combining marks reproduce the input under NFD. "
        "Non-trivial: the output contains an accent command.")
ASSUMPTIONS = ["inputs that themselves spell an accent command (backslash, accent letter, brace) are excluded from read-back (ambiguous by design)",
               "unicodedata of the running interpreter is the reference for NFD and decompositions"]
REQUIRED_COUNTERS = ("codepoints", "with_command", "strings", "exports", "fontdoc_cases")

ALPHA12 = ["a", " ", "\\", "{", "&", "\u00e9", "\u0301", "\u0489", "\u2026", "\u00a0", "\u4e2d", "\U0001F600"]
SPECIALS = ["%", "#", "$", "_", "~", "^", "}", "\u212a", "\u00fc", "\n", "\t"]  # TeX specials and white space pass through
EXTRA4 = ["\ufb01", "\u00b2", "\u00bd", "\u01d8"]
SEEDED = ["\u00fc", "\u0327", "\u212b", "\u1e69", "\u0308", "\u0323", "e", "}"]


def bounds(tier, seed):
    return {"codepoints": "U+0000..U+10FFFF minus surrogates x 4 contexts",
            "strings": "len<=%d over %d letters + seeded letters %r at len<=3" % (((4, 12) if tier == "quick" else (5, 16)) + (_seed_alpha(seed),))}


def _seed_alpha(seed):
    k = seed % len(SEEDED)
    return ["a", "\u00e9", "\u0301", SEEDED[k], SEEDED[(k + 3) % len(SEEDED)], SEEDED[(k + 5) % len(SEEDED)]]


def plan(tier, seed):
    shards = []
    step = 0x8800
    for a in range(0, 0x110000, step):
        shards.append({"kind": "cp", "a": a, "b": min(0x110000, a + step)})
    alpha = ALPHA12 if tier == "quick" else ALPHA12 + EXTRA4
    nmax = 4 if tier == "quick" else 5
    for first in range(len(alpha)):
        shards.append({"kind": "str", "alpha": alpha, "nmax": nmax, "first": first})
    shards.append({"kind": "str", "alpha": _seed_alpha(seed), "nmax": 3, "first": None})
    shards.append({"kind": "str", "alpha": ALPHA12[:8] + SPECIALS, "nmax": 3, "first": None})
    for first in range(len(ALPHA12) + len(SPECIALS)):  # label texts through the real TikZ export (length <= 2)
        shards.append({"kind": "tex", "alpha": ALPHA12 + SPECIALS, "nmax": 2, "first": first})
    shards.append({"kind": "fontdoc"})
    for r in range(8):  # every ordered pair of combining diacritical marks (U+0300-U+036F) on several bases
        shards.append({"kind": "marks", "mod": 8, "rem": r})
    if tier == "thorough":
        for first in range(len(alpha)):
            shards.append({"kind": "tex", "alpha": alpha, "nmax": 3, "first": first})
        for r in range(56):  # every ordered triple of the combining diacritical marks on two bases
            shards.append({"kind": "marks3", "mod": 56, "rem": r})
    return shards


DEF = re.compile(r"^\\def\\text([A-Z]+)\{(.*)\}$", re.S)


ACCESSORS = ("default", "none", "custom")


def via_export(text, accessor="default"):
    """The text as it arrives in the TikZ document.  accessor: how the timeline finds the text in the records - the
    default textFn, the option textFn=None (the built-in path that reads record["text"]), or a caller-supplied function."""
    from labella.scale import LinearScale
    from labella.timeline import TimelineTex
    opts = {"scale": LinearScale(), "domain": [0, 10]}
    data = [{"time": 1, "width": 30, "text": text}, {"time": 5, "width": 30, "text": "x"}]
    if accessor == "none":
        opts["textFn"] = None
    elif accessor == "custom":
        data = [{"time": 1, "width": 30, "caption": text}, {"time": 5, "width": 30, "caption": "x"}]
        opts["textFn"] = lambda d: d["caption"]
    tl = TimelineTex(data, opts)
    doc = tl.export()
    # the text definitions are consecutive "\def\text<ID>{...}" entries, each starting a line; a label may contain
    # line feeds, so an entry ends where the next one (or the blank line before \begin{document}) starts
    a = doc.find("\n\\def\\textA{")
    if a < 0:
        return None
    a += len("\n\\def\\textA{")
    b = doc.find("\n\\def\\textB{", a)
    if b < 0:
        b = doc.find("\n\n\\begin{document}", a)
    if b < 0 or doc[b - 1] != "}":
        return None
    return doc[a:b - 1]


SENTINEL = "\u2402SENTINEL\u2402"
FONTDOC_TEXTS = ["{preamble}", "{text}", "{fontsize}", "{0}", "{}", "a{preamble}b", "{{x}}", "%s", "\\{", "}"]


def check_fontdoc(text, preamble):
    """The measuring document (labella.tex.get_latex_fontdoc) carries the converted label text; the document for a
    label must be the document for a sentinel label with the sentinel replaced - whatever the template looks like."""
    from labella.tex import get_latex_fontdoc, uni2tex
    try:
        ref = get_latex_fontdoc(SENTINEL, preamble=preamble)
        doc = get_latex_fontdoc(text, preamble=preamble)
    except Exception as e:
        return "EXC:fontdoc:" + type(e).__name__, "get_latex_fontdoc(%r, preamble=%r) raised %r" % (text, preamble, e)
    if SENTINEL not in ref:
        return "C19:fontdoc", "the measuring document does not contain the label text"
    want = ref.replace(SENTINEL, uni2tex(text))
    if doc != want:
        k = next((i for i, (a, b) in enumerate(zip(doc, want)) if a != b), min(len(doc), len(want)))
        return ("C19:fontdoc", "get_latex_fontdoc(%r, preamble=%r): ...%r... but the template with this text is ...%r..."
                % (text, preamble, doc[max(0, k - 20):k + 40], want[max(0, k - 20):k + 40]))
    return None


def run_shard(shard):
    from labella.tex import uni2tex
    acc = Acc()
    if shard["kind"] == "fontdoc":
        texts = FONTDOC_TEXTS + ["".join(t) for n in (1, 2) for t in itertools.product(ALPHA12[:9] + ["%", "}"], repeat=n)]
        for text in texts:
            for preamble in ("", "\\usepackage{times}", "{x} \u00e9"):
                acc.evals += 1
                acc.states += 1
                acc.trans += 1
                acc.counters["fontdoc_cases"] += 1
                bad = check_fontdoc(text, preamble)
                if bad:
                    acc.violation({"text": text, "preamble": preamble, "via": "fontdoc"}, bad[0], bad[1], order=(2, len(text), text))
        acc.sample({"text": text, "preamble": preamble, "via": "fontdoc"})
        return acc
    if shard["kind"] == "marks3":
        marks = [chr(c) for c in range(0x300, 0x370)]
        text = None
        for i, m1 in enumerate(marks):
            if i % shard["mod"] != shard["rem"]:
                continue
            for m2 in marks:
                for m3 in marks:
                    acc.states += 1
                    for base in ("a", "\u03b1"):
                        text = base + m1 + m2 + m3 + "n"
                        acc.evals += 1
                        acc.trans += 1
                        acc.counters["mark_triple_strings"] += 1
                        acc.nontriv += 1
                        bad = uni.check_text(uni2tex, text)
                        if bad:
                            acc.violation({"text": text}, bad[0], bad[1], order=(1, len(text), text))
        acc.sample({"text": text})
        return acc
    if shard["kind"] == "marks":
        marks = [chr(c) for c in range(0x300, 0x370)]
        text = None
        for i, m1 in enumerate(marks):
            if i % shard["mod"] != shard["rem"]:
                continue
            for m2 in marks:
                acc.states += 1
                for base in ("a", "\u00e9", "\u03b1", "xo", "{"):
                    for tail in ("", "n"):
                        text = base + m1 + m2 + tail
                        acc.evals += 1
                        acc.trans += 1
                        acc.counters["mark_pair_strings"] += 1
                        acc.nontriv += 1
                        bad = uni.check_text(uni2tex, text)
                        if uni.ambiguous(text):
                            acc.counters["ambiguous_inputs_skipped"] += 1
                        if bad:
                            acc.violation({"text": text}, bad[0], bad[1], order=(1, len(text), text))
        acc.sample({"text": text})
        return acc
    if shard["kind"] == "cp":
        for cp in range(shard["a"], shard["b"]):
            if 0xD800 <= cp <= 0xDFFF:
                continue
            c = chr(cp)
            acc.states += 1
            acc.counters["codepoints"] += 1
            for ctx, text in enumerate((c, "a" + c, c + "b", "a" + c + "b")):
                acc.evals += 1
                acc.trans += 1
                bad = uni.check_text(uni2tex, text)
                if bad:
                    acc.violation({"text": text}, bad[0], bad[1], order=(0, cp, ctx))
            try:
                if uni.CMD.search(uni2tex("a" + c + "b")):
                    acc.counters["with_command"] += 1
                    acc.nontriv += 1
            except Exception:
                pass
        acc.sample({"text": "a" + chr(min(shard["a"] + 0xE9, 0x10FFFF)) + "b"})
        return acc
    alpha = shard["alpha"]
    for n in range(1, shard["nmax"] + 1):
        for tup in itertools.product(range(len(alpha)), repeat=n):
            if shard["first"] is not None and tup[0] != shard["first"]:
                continue
            text = "".join(alpha[i] for i in tup)
            acc.states += 1
            acc.evals += 1
            acc.trans += 1
            acc.counters["strings"] += 1
            if shard["kind"] == "str":
                bad = uni.check_text(uni2tex, text)
                if uni.ambiguous(text):
                    acc.counters["ambiguous_inputs_skipped"] += 1
            else:
                bad = None
                for accessor in ACCESSORS:
                    acc.counters["exports"] += 1
                    try:
                        got = via_export(text, accessor)
                    except Exception as e:
                        bad = ("EXC:export:" + type(e).__name__, "TimelineTex.export with label text %r raised %r" % (text, e))
                    else:
                        bad = uni.check_text(lambda t, g=got: g, text) if got is not None else \
                            ("C19:text-missing", "no \\def\\textA line for label text %r" % (text,))
                    if bad:
                        acc.violation({"text": text, "via": shard["kind"], "accessor": accessor}, bad[0], bad[1] + " [textFn: %s]" % accessor,
                                      order=(1, n, tup))
                        break
                bad = None
            if bad:
                acc.violation({"text": text, "via": shard["kind"]}, bad[0], bad[1], order=(1, n, tup))
            elif "\\" in text or any(ord(ch) > 127 for ch in text):
                acc.nontriv += 1
    acc.sample({"text": text, "via": shard["kind"]})
    return acc


def replay(case):
    from labella.tex import uni2tex
    if case.get("via") == "fontdoc":
        return check_fontdoc(case["text"], case["preamble"])
    if case.get("via") == "tex":
        try:
            got = via_export(case["text"], case.get("accessor", "default"))
        except Exception as e:
            return "EXC:export:" + type(e).__name__, repr(e)
        if got is None:
            return "C19:text-missing", "no \\def\\textA line"
        return uni.check_text(lambda t: got, case["text"])
    return uni.check_text(uni2tex, case["text"])


def snippet(case):
    return "from labella.tex import uni2tex\nprint(repr(uni2tex(%r)))" % case["text"]
