"""C05 - the separation-constraint solver is feasible and (certified) optimal.

E-INPUT over complete small problem spaces + deep-narrow parametric families,
oracles: weak-duality certificate with max-flow multipliers (R-KKT), exact
active-set QP (R-QP) as confirmation / cross-check."""
import itertools
from fractions import Fraction as F

from mc import oracles
from mc.core import Acc, Hang, horizon

ID = "C05"
RULE = ("E-INPUT: every acyclic instance with n<=3 variables (each ordered pair absent / gap 0 / gap 2 / duplicated, every "
        "relabelling, desired in {0,1,3}^n, 4 weight x 4 scale vectors; quick: 3 of the 6 relabellings) and n=4 (pairs absent/0/2, desired {0,1,3}^4, "
        "relabellings; thorough: all weight/scale vectors, n=5 over {0,2}^5); every multiset of <=3 (thorough <=4) directed "
        "edges over 3 (4) variables incl. contradictory cycles; thorough: families up to 60 variables; re-solve path (solve, setDesiredPositions, solve - on the same solver and on a new Solver built over the same Variable and Constraint objects) for every pair of desired vectors at n=3 ({0,1,3}) and n=4 ({0,2}). Real "
        "vpsc.Solver.solve(); feasibility, cost consistency, exact dual certificate; R-QP confirms every rejection with "
        "<=8 constraints and cross-checks every 50th instance. Non-trivial: optimum != desired (a merge was needed).")
ASSUMPTIONS = ["equality constraints and setStartingPositions are outside the property; re-solving after setDesiredPositions is driven",
               "tolerances: feasibility 1e-6 relative, optimality 1e-4 absolute + 1e-6 relative (the solver's own convergence threshold)"]
REQUIRED_COUNTERS = ("acyclic_instances", "cyclic_instances", "cyclic_flagged", "moved_instances", "resolve_instances", "resolve_with_fresh_solver")

W_VEC = {
    "unit": lambda n: [1] * n,
    "heavy0": lambda n: [10 ** 10] + [1] * (n - 1),
    "light0": lambda n: [F(1, 100)] + [1] * (n - 1),
    "mixed": lambda n: [F(1, 100), 1, 10 ** 4, 10 ** 10, 1, 1][:n],
}
S_VEC = {
    "unit": lambda n: [1] * n,
    "two0": lambda n: [2] + [1] * (n - 1),
    "half1": lambda n: ([1, F(1, 2)] + [1] * n)[:n],
    "mixed": lambda n: [F(1, 2), 1, 2, 4, 1, 1][:n],
}


def bounds(tier, seed):
    return {"acyclic": "n<=3 complete with duplicates x 16 weight/scale vectors; n=4 x %s; %s"
                       % (("unit weights/scales, 3 relabellings + desired {0,1}^4 with mixed/heavy weights x unit/mixed scales", "n=5 not run") if tier == "quick"
                          else ("16 weight/scale vectors, 4 relabellings", "n=5 over desired {0,2}^5, 4 weight vectors")),
            "cyclic": "multisets of <=%d directed edges over %d variables, gaps {0,1,2}, desired {0,1,3}^n"
                      % ((3, 3) if tier == "quick" else (4, 4)),
            "families": "thorough: chains, walled chains, stars, layered DAGs, ladders, n=1..60; every DAG on 6 variables with <= 6 edges x 2 gap patterns x desired {0,2}^6"}


# ------------------------------------------------------------------ instances
def pair_options(dups):
    opts = [[], [0], [2]]
    if dups:
        opts += [[0, 0], [0, 2], [2, 2]]
    return opts


def acyclic_configs(n, dups):
    pairs = [(i, j) for i in range(n) for j in range(i + 1, n)]
    for combo in itertools.product(pair_options(dups), repeat=len(pairs)):
        cons = []
        for (i, j), gs in zip(pairs, combo):
            for g in gs:
                cons.append((i, j, g))
        yield cons


def perms_for(n, which):
    allp = list(itertools.permutations(range(n)))
    if which == "all":
        return allp
    step = max(1, len(allp) // which)
    return allp[::step][:which]


def run_impl(d, w, s, cons, budget=5.0):
    from labella import vpsc
    vs = [vpsc.Variable(float(di), float(wi), float(si)) for di, wi, si in zip(d, w, s)]
    cs = [vpsc.Constraint(vs[l], vs[r], float(g)) for l, r, g in cons]
    with horizon(budget):
        solver = vpsc.Solver(vs, cs)
        cost = solver.solve()
    return [v.position() for v in vs], cost, [bool(c.unsatisfiable) for c in cs]


def run_resolve(d1, d2, w, s, cons, budget=5.0, fresh=False):
    """solve(), then setDesiredPositions(d2), then solve() again on the SAME solver - or (fresh) on a NEW Solver built over
    the same Variable and Constraint objects (the constructor takes any variables and constraints)."""
    from labella import vpsc
    vs = [vpsc.Variable(float(di), float(wi), float(si)) for di, wi, si in zip(d1, w, s)]
    cs = [vpsc.Constraint(vs[l], vs[r], float(g)) for l, r, g in cons]
    with horizon(budget):
        solver = vpsc.Solver(vs, cs)
        solver.solve()
        if fresh:
            solver = vpsc.Solver(vs, cs)
        solver.setDesiredPositions([float(v) for v in d2])
        cost = solver.solve()
    return [v.position() for v in vs], cost, [bool(c.unsatisfiable) for c in cs]


def is_acyclic(n, cons):
    out = {i: set() for i in range(n)}
    indeg = [0] * n
    for l, r, g in cons:
        if l == r:
            return False
        if r not in out[l]:
            out[l].add(r)
            indeg[r] += 1
    q = [i for i in range(n) if indeg[i] == 0]
    seen = 0
    while q:
        u = q.pop()
        seen += 1
        for v in out[u]:
            indeg[v] -= 1
            if indeg[v] == 0:
                q.append(v)
    return seen == n


def judge(inst, acc=None, force_qp=False):
    """Run the real solver on one instance and apply the oracle -> (key, reason)|None"""
    d, w, s, cons = inst["d"], inst["w"], inst["s"], [tuple(c) for c in inst["cons"]]
    n = len(d)
    try:
        if "d_first" in inst:  # re-solve path: the verdict is about the second desired vector
            x, cost, uns = run_resolve(inst["d_first"], d, w, s, cons, fresh=bool(inst.get("fresh_solver")))
        else:
            x, cost, uns = run_impl(d, w, s, cons)
    except Hang as e:
        return "HANG", "solve() did not return within the horizon"
    except RecursionError:
        return "EXC:RecursionError", "solve() raised RecursionError"
    except Exception as e:
        return "EXC:" + type(e).__name__, "solve() raised %r" % (e,)
    dq, wq, sq = [F(v) for v in d], [F(v) for v in w], [F(v) for v in s]
    cq = [(l, r, F(g)) for l, r, g in cons]
    acyc = is_acyclic(n, cons)
    if acc is not None:
        acc.counters["acyclic_instances" if acyc else "cyclic_instances"] += 1
        if any(abs(a - float(b)) > 1e-9 for a, b in zip(x, d)):
            acc.counters["moved_instances"] += 1
            acc.nontriv += 1
        acc.outcome(tuple(round(v, 6) for v in x))
    # cost consistency
    mine = sum(float(wi) * (xi - float(di)) ** 2 for wi, xi, di in zip(w, x, d))
    if abs(mine - cost) > 1e-9 * max(1.0, abs(mine)) + 1e-12:
        return "C05:cost-mismatch", "returned cost %r but positions %r cost %r" % (cost, x, mine)
    if not acyc:
        if acc is not None and any(uns):
            acc.counters["cyclic_flagged"] += 1
        for (l, r, g), u in zip(cons, uns):
            if u:
                continue
            lhs = float(s[r]) * x[r] - float(s[l]) * x[l]
            if lhs - g < -1e-6 * max(1, abs(g), abs(lhs)):
                return ("C05:unflagged-violated", "constraint x%d - x%d >= %r is not flagged unsatisfiable but holds "
                        "with slack %r (positions %r)" % (r, l, g, lhs - g, x))
        return None
    if any(uns):
        return "C05:flagged-in-dag", "an acyclic instance has constraints flagged unsatisfiable: %r" % (uns,)
    verdict, info = oracles.certify_flow(dq, wq, sq, cq, x)
    if verdict == "ok" and not force_qp:
        return None
    if verdict == "infeasible":
        return "C05:infeasible", "constraint (left %d, right %d, gap %r) violated: lhs %r; positions %r" % (info + (x,))
    if len(cons) <= 8:
        ex = oracles.qp_exact(dq, wq, sq, cq)
        xs, cs_ = ex
        if float(sum(wq[i] * (F(x[i]) - dq[i]) ** 2 for i in range(n)) - cs_) > 1e-4 + 1e-6 * float(cs_):
            return ("C05:suboptimal", "cost %r but the exact optimum is %r at %r (solver positions %r)"
                    % (cost, float(cs_), [float(v) for v in xs], x))
        if verdict != "ok":
            if acc is not None:
                acc.counters["certificate_weaker_than_qp"] += 1
        return None
    return ("C05:suboptimal", "no dual certificate: cost %r, best lower bound %r (positions %r)" % (info + (x,)))


# ------------------------------------------------------------------ families (thorough)
def family_instances(n, rich=True):
    pats_d = ([0, 1, 3], [5, 0], [0, 0, 0, 9], [3, 1, 4, 1, 5, 9, 2, 6], [9, 3, 5, 7, 3, 1, 2, 6, 4, 3, 5])
    pats_g = ([2], [0, 3], [1, 0, 2], [1, 0], [0, 1, 1])
    wcyc = [F(1, 100), 1, 10 ** 4, 1, 10 ** 10]
    wwide = [F(1, 10), F(1, 100), F(1, 10), 100, 10, 1, F(1, 100)]
    if not rich:  # the three extra patterns (period 11 desired, two 0/1 gap patterns, the wide weight cycle) are left out
        pats_d, pats_g = pats_d[:4], pats_g[:3]
    for pd in pats_d:
        d = [pd[i % len(pd)] for i in range(n)]
        for pg in pats_g:
            g = lambda i: pg[i % len(pg)]
            for wname in (("unit", "cycle", "wide") if rich else ("unit", "cycle")):
                w = [1] * n if wname == "unit" else [wcyc[i % 5] for i in range(n)] if wname == "cycle" else [wwide[i % 7] for i in range(n)]
                s = [1] * n
                chain = [(i, i + 1, g(i)) for i in range(n - 1)]
                yield {"fam": "chain", "d": d, "w": w, "s": s, "cons": chain}
                yield {"fam": "chain-rev-index", "d": d, "w": w, "s": s,
                       "cons": [(n - 1 - i, n - 2 - i, g(i)) for i in range(n - 1)]}
                if n >= 3:
                    ww = [10 ** 10] + [1] * (n - 2) + [10 ** 10]
                    dd = [0] + d[1:-1] + [max(3, n)]
                    yield {"fam": "walled-chain", "d": dd, "w": ww, "s": s, "cons": chain}
                    yield {"fam": "star-out", "d": d, "w": w, "s": s, "cons": [(0, i, g(i)) for i in range(1, n)]}
                    yield {"fam": "star-in", "d": d, "w": w, "s": s, "cons": [(i, n - 1, g(i)) for i in range(n - 1)]}
                    yield {"fam": "ladder", "d": d, "w": w, "s": s,
                           "cons": chain + [(i, i + 2, g(i) + g(i + 1)) for i in range(n - 2)]}
                if n >= 4:
                    for width in (2, 3):
                        cons = []
                        for i in range(n):
                            for j in range(n):
                                if j // width == i // width + 1:
                                    cons.append((i, j, g(i + j)))
                        yield {"fam": "layered%d" % width, "d": d, "w": w, "s": s, "cons": cons}
                        sc = [[F(1, 2), 1, 2, 4][i % 4] for i in range(n)]
                        yield {"fam": "layered%d-scaled" % width, "d": d, "w": w, "s": sc, "cons": cons}


# ------------------------------------------------------------------ plan / run
def plan(tier, seed):
    shards = []
    nsh = 48
    for r in range(nsh):
        shards.append({"kind": "acyc", "n": 3, "dups": True, "perms": 3 if tier == "quick" else "all", "D": [0, 1, 3],
                       "wv": "all", "sv": "all", "mod": nsh, "rem": r})
    if tier == "quick":
        for r in range(nsh):
            shards.append({"kind": "acyc", "n": 4, "dups": False, "perms": 3, "D": [0, 1, 3], "wv": ["unit"], "sv": ["unit"],
                           "mod": nsh, "rem": r})
        for r in range(16):
            shards.append({"kind": "acyc", "n": 4, "dups": False, "perms": 2, "D": [0, 1], "wv": ["mixed", "heavy0"],
                           "sv": ["unit", "mixed"], "mod": 16, "rem": r})
        for r in range(16):
            shards.append({"kind": "cyc", "n": 3, "maxe": 3, "mod": 16, "rem": r})
    else:
        nsh = 192
        for r in range(nsh):
            shards.append({"kind": "acyc", "n": 4, "dups": False, "perms": 4, "D": [0, 1, 3], "wv": "all", "sv": "all",
                           "mod": nsh, "rem": r})
        for r in range(nsh):
            shards.append({"kind": "acyc", "n": 5, "dups": False, "perms": 1, "D": [0, 2],
                           "wv": ["unit", "heavy0", "light0", "mixed"], "sv": ["unit"], "mod": nsh, "rem": r})
        for r in range(96):
            shards.append({"kind": "cyc", "n": 4, "maxe": 4, "mod": 96, "rem": r})
        for r in range(96):  # sparse DAGs on 6 variables: every graph with <= 6 edges, two gap patterns, desired {0,2}^6
            shards.append({"kind": "sparse6", "mod": 96, "rem": r})
    # deep-narrow families (chains, walled chains, stars, ladders, layered DAGs): cheap (~140 CPU-s for n <= 60) and the
    # only scope that reaches repeated split / re-merge of the same constraint, so they run in the quick tier too
    for n in range(1, 61 if tier == "quick" else 101):
        shards.append({"kind": "fam", "n": n, "rich": tier != "quick" or n <= 40})
    # re-solve path: solve, setDesiredPositions, solve on one solver - every pair of desired vectors
    for r in range(16):
        shards.append({"kind": "resolve", "n": 3, "D": [0, 1, 3], "mod": 16, "rem": r})
    for r in range(32):
        shards.append({"kind": "resolve", "n": 4, "D": [0, 2], "mod": 32, "rem": r})
    # seeded slice: n=3 with another desired/gap alphabet
    D = [[0, 0.5, 2], [1, 4, 9], [-3, 0, 0.25], [0, 10, 11]][seed % 4]
    shards.append({"kind": "acyc", "n": 3, "dups": False, "perms": "all", "D": D, "wv": "all", "sv": "all",
                   "mod": 1, "rem": 0, "gmap": [1.5, 0.5, 3][seed % 3]})
    return shards


def run_shard(shard):
    acc = Acc()
    _count_paths(acc)
    if shard["kind"] == "acyc":
        n = shard["n"]
        wv = list(W_VEC) if shard["wv"] == "all" else shard["wv"]
        sv = list(S_VEC) if shard["sv"] == "all" else shard["sv"]
        perms = perms_for(n, shard["perms"])
        k = 0
        for ci, cons0 in enumerate(acyclic_configs(n, shard["dups"])):
            if ci % shard["mod"] != shard["rem"]:
                continue
            acc.states += 1
            if "gmap" in shard:
                cons0 = [(l, r, shard["gmap"] if g else 0) for l, r, g in cons0]
            for pi, perm in enumerate(perms):
                cons = [(perm[l], perm[r], g) for l, r, g in cons0]
                for d in itertools.product(shard["D"], repeat=n):
                    for wn in wv:
                        for sn in sv:
                            inst = {"d": list(d), "w": W_VEC[wn](n), "s": S_VEC[sn](n), "cons": cons}
                            k += 1
                            bad = judge(inst, acc, force_qp=(k % 50 == 0 and len(cons) <= 6))
                            acc.evals += 1
                            acc.trans += 1
                            if bad:
                                acc.violation(inst, bad[0], bad[1], order=(n, len(cons), ci, pi))
            if ci % 17 == 0:
                acc.sample(inst)
    elif shard["kind"] == "sparse6":
        n = 6
        pairs = [(i, j) for i in range(n) for j in range(i + 1, n)]
        perm = [3, 0, 4, 1, 5, 2]  # so that "left" is not always the lower index
        gi = 0
        for k in range(0, 7):
            for es in itertools.combinations(range(len(pairs)), k):
                gi += 1
                if gi % shard["mod"] != shard["rem"]:
                    continue
                acc.states += 1
                for pat in (0, 1):
                    cons = [(perm[pairs[e][0]], perm[pairs[e][1]], 2 if pat == 0 else (2 * pairs[e][0] + pairs[e][1]) % 4) for e in es]
                    for d in itertools.product((0, 2), repeat=n):
                        inst = {"d": list(d), "w": [1] * n, "s": [1] * n, "cons": cons}
                        bad = judge(inst, acc)
                        acc.evals += 1
                        acc.trans += 1
                        acc.counters["sparse6_instances"] += 1
                        if bad:
                            acc.violation(inst, bad[0], bad[1], order=(30, k, gi))
        acc.sample(inst)
    elif shard["kind"] == "resolve":
        n = shard["n"]
        for ci, cons in enumerate(acyclic_configs(n, False)):
            if ci % shard["mod"] != shard["rem"]:
                continue
            acc.states += 1
            for d1 in itertools.product(shard["D"], repeat=n):
                for d2 in itertools.product(shard["D"], repeat=n):
                    for fresh in ((False, True) if n <= 3 else (bool((ci + sum(d1)) % 2),)):
                        inst = {"d": list(d2), "d_first": list(d1), "w": [1] * n, "s": [1] * n, "cons": cons, "fresh_solver": fresh}
                        bad = judge(inst, acc)
                        acc.evals += 1
                        acc.trans += 1
                        acc.counters["resolve_instances"] += 1
                        if fresh:
                            acc.counters["resolve_with_fresh_solver"] += 1
                        if bad:
                            acc.violation(inst, bad[0], bad[1], order=(20 + n, len(cons), ci))
        acc.sample(inst)
    elif shard["kind"] == "cyc":
        n = shard["n"]
        letters = [(l, r, g) for l in range(n) for r in range(n) if l != r for g in (0, 1, 2)]
        idx = 0
        for k in range(1, shard["maxe"] + 1):
            for ms in itertools.combinations_with_replacement(range(len(letters)), k):
                idx += 1
                if idx % shard["mod"] != shard["rem"]:
                    continue
                cons = [letters[i] for i in ms]
                acc.states += 1
                for d in itertools.product((0, 1, 3), repeat=n):
                    inst = {"d": list(d), "w": [1] * n, "s": [1] * n, "cons": cons}
                    bad = judge(inst, acc)
                    acc.evals += 1
                    acc.trans += 1
                    if bad:
                        acc.violation(inst, bad[0], bad[1], order=(10 + n, k, idx))
        acc.sample(inst)
    else:
        for inst in family_instances(shard["n"], shard.get("rich", True)):
            fam = inst.pop("fam")
            bad = judge(inst, acc)
            acc.evals += 1
            acc.states += 1
            acc.trans += 1
            acc.counters["family_instances"] += 1
            if bad:
                acc.violation(inst, bad[0], bad[1], order=(100, shard["n"], fam))
    _uncount_paths(acc)
    return acc


# ---- path counters: wrap the library's merge/split entry points from outside
_orig = {}


def _count_paths(acc):
    from labella import vpsc
    for cls, name in ((vpsc.Blocks, "merge"), (vpsc.Block, "splitBetween"), (vpsc.Block, "createSplitBlock")):
        f = cls.__dict__.get(name)
        if f is None:
            continue
        _orig[(cls, name)] = f
        raw = f.__func__ if isinstance(f, classmethod) else f

        def wrap(*a, _raw=raw, _n=name, **k):
            acc.counters["path_" + _n] += 1
            return _raw(*a, **k)
        setattr(cls, name, classmethod(wrap) if isinstance(f, classmethod) else wrap)


def _uncount_paths(acc):
    for (cls, name), f in _orig.items():
        setattr(cls, name, f)
    _orig.clear()


def replay(case):
    return judge(case)


def snippet(case):
    if "d_first" in case:
        return "# solve with desired %r, then setDesiredPositions(%r) and solve again; constraints %r" % (
            case["d_first"], case["d"], case["cons"])
    return ("from labella import vpsc\nd,w,s,cons=%r,%r,%r,%r\n"
            "vs=[vpsc.Variable(float(a),float(b),float(c)) for a,b,c in zip(d,w,s)]\n"
            "cs=[vpsc.Constraint(vs[l],vs[r],float(g)) for l,r,g in cons]\n"
            "print(vpsc.Solver(vs,cs).solve(), [v.position() for v in vs], [c.unsatisfiable for c in cs])"
            % ([float(v) for v in case["d"]], [float(v) for v in case["w"]], [float(v) for v in case["s"]],
               [list(c) for c in case["cons"]]))
