"""C18 - results do not depend on the process's local time zone.

The same enumerated computations are executed under each zone (os.environ TZ +
time.tzset(), which is what a process started with that TZ sees) and their
canonical output lines are compared with the UTC run, byte for byte."""
import datetime as _dt
from datetime import datetime, timedelta

from mc import cal, core, draw, drawcases as dc, timegrid
from mc.core import Acc, Hang, horizon

ID = "C18"
ZONES = ("America/New_York", "Asia/Kolkata", "Australia/Lord_Howe", "Pacific/Chatham", "Europe/Dublin", "America/St_Johns", "right/UTC")
RULE = ("E-INPUT x configurations: calendar operations (7 units x floor/ceil/round/offset/range) on every day of 2020-2021 x 2 "
        "times of day and on every minute 00:00-04:59 of the seven 2021 DST transition dates of the zones, on every month boundary 1900-2100 (day/week/month/year units), at 7 wall-clock times on every date 1900-2037 on which one of the zones changes its UTC offset (from tzdata; also one month before/after for month arithmetic; a third of them marked fold=1); TimeScale mapping / "
        "invert for instant pairs, ticks(m) and nice(m) over start instants x span ladder x counts and over multi-year spans on and up to an hour beside the year-step thresholds, date-typed timeline items at every month boundary 1900-2100, and whole SVG/TikZ exports "
        "of datetime datasets - each executed under UTC and under America/New_York, Asia/Kolkata, Australia/Lord_Howe, "
        "Pacific/Chatham, Europe/Dublin, America/St_Johns and right/UTC (a zone file with a leap-second table) (process TZ switched with tzset), outputs compared byte for byte with the UTC run. "
        "Non-trivial: cases whose instants fall inside a DST gap/overlap of some zone, or straddle a transition.")
ASSUMPTIONS = ["switching TZ with time.tzset() inside a worker is equivalent to starting the process with that TZ (libc localtime/mktime)",
               "tzdata of the image defines the zones"]
REQUIRED_COUNTERS = ("cases", "zone_runs", "dst_window_cases")
DST_DAYS = (datetime(2021, 3, 14), datetime(2021, 11, 7), datetime(2021, 4, 4), datetime(2021, 10, 3), datetime(2021, 9, 26),
            datetime(2021, 3, 28), datetime(2021, 10, 31))
UNITS = cal.UNITS
KINDS = ["cal", "map", "ticks", "nice", "dateitems", "export"]


def bounds(tier, seed):
    return {"zones": ["UTC"] + list(ZONES), "calendar_days": "2020-2021 every day x 2 tods" + (" + every 4th year 1900-2100, 1969-71, 1999-2004, 2018-25, 2037-38" if tier == "thorough" else ""),
            "dst_minutes": "00:00-04:59 on %d transition dates" % len(DST_DAYS),
            "scale_cases": "C15 instants; C16/C14 reduced grids", "exports": "C07 datetime datasets n<=2, default and explicit options"}


# ------------------------------------------------------------------ case lists (JSON-able descriptors)
_TRANS = []


def zone_transitions():
    """Local wall-clock dates on which one of the zones changes its UTC offset, 1900-2037 (from the image's tzdata,
    found by comparing the offset at successive UTC midnights) -> sorted list of dates (the UTC day and the day before,
    so that the local date of the change is included whatever the offset)."""
    if not _TRANS:
        import zoneinfo
        days = set()
        for z in ZONES:
            if z.startswith("right/"):
                continue
            tz = zoneinfo.ZoneInfo(z)
            d = _dt.datetime(1900, 1, 1, tzinfo=_dt.timezone.utc)
            prev = None
            while d.year < 2038:
                off = d.astimezone(tz).utcoffset()
                if prev is not None and off != prev:
                    days.add(d.date())
                    days.add(d.date() - _dt.timedelta(days=1))
                prev = off
                d += _dt.timedelta(days=1)
        _TRANS.extend(sorted(days))
    return _TRANS


TRANS_TODS = (timedelta(minutes=30), timedelta(hours=1, minutes=30), timedelta(hours=2, minutes=15), timedelta(hours=2, minutes=45),
              timedelta(hours=3), timedelta(hours=3, minutes=30), timedelta(hours=23, minutes=30))


def _shift_month(t, k):
    y, m = divmod(t.year * 12 + t.month - 1 + k, 12)
    try:
        return t.replace(year=y, month=m + 1)
    except ValueError:
        return None


def cal_instants(tier):
    out = []
    # every change of UTC offset of the zones since 1900: wall-clock instants on those dates (inside and around the
    # skipped / repeated hour), also one month earlier and later (month arithmetic that lands on such a date), every
    # third instant marked as the second occurrence of its wall-clock time (fold=1)
    k = 0
    for day in zone_transitions():
        for tod in TRANS_TODS:
            t = datetime(day.year, day.month, day.day) + tod
            k += 1
            out.append(("trans", t.replace(fold=1) if k % 3 == 0 else t))
            for dm in (-1, 1):
                u = _shift_month(t, dm)
                if u is not None:
                    out.append(("transmonth", u))
    years = (2020, 2021) if tier == "quick" else tuple(sorted(set(range(1900, 2101, 4)) | set(range(1969, 1972)) | set(range(1999, 2005)) | set(range(2018, 2026)) | {2037, 2038, 2100}))
    for y in years:
        for d in timegrid.all_days(y, y):
            out += [("day", d), ("day", d + timegrid.TOD1)]
    for day in DST_DAYS:
        for m in range(0, 300):
            t = day + timedelta(minutes=m, seconds=(m * 7) % 60)
            out.append(("dst", t.replace(fold=1) if m % 4 == 3 else t))
    # every month boundary of two centuries (zones had one-off clock changes at such instants, e.g. 1941-10-01 in India)
    for y in range(1900, 2101):
        for mo in range(1, 13):
            out.append(("month", datetime(y, mo, 1)))
            if (y + mo) % 6 == 0:
                out.append(("month", datetime(y, mo, 1) - timedelta(hours=11, minutes=30)))
    return out


def run_case(case):
    """One computation -> canonical text (repr of the result or the exception type)."""
    from labella.d3_time import d3_time
    from labella.scale import TimeScale
    kind = case[0]
    try:
        with horizon(6.0):
            if kind == "cal":
                _, u, t = case
                iv = d3_time[u]
                f = iv.floor(t)
                raw = []
                for k in (1, -1):  # stepping from the instant itself (not from a boundary)
                    try:
                        raw.append(iv.offset(t, k))
                    except Exception as e:
                        raw.append(type(e).__name__)
                return repr((f, iv.ceil(t), iv.round(t), iv.offset(f, 1), iv.offset(f, 7),
                             iv.range(t, t + 3 * (iv.offset(f, 1) - f), 1)[:5], iv.range(f, iv.offset(f, 7), 2), raw))
            if kind == "map":
                _, t0, t1, q = case
                s = TimeScale().domain([t0, t1]).range([0, 360])
                y = s(q)
                return repr((y, s.invert(y), s.domain()))
            if kind == "ticks":
                _, st, sp, m = case
                en = st + timedelta(milliseconds=sp)
                return repr(TimeScale().domain([st, en]).ticks(m))
            if kind == "nice":
                _, st, sp, m = case
                en = st + timedelta(milliseconds=sp)
                s = TimeScale().domain([en, st]) if m % 2 else TimeScale().domain([st, en])
                return repr(s.nice(m).domain())
            if kind == "dateitems":
                _, d0 = case
                from labella.timeline import TimelineSVG
                tl = TimelineSVG([{"time": d0, "width": 30}, {"time": d0 + _dt.timedelta(days=45), "width": 30}], {"direction": "up"})
                return repr(([it.time for it in tl.items], tl.options["scale"].domain()))
            if kind == "export":
                _, data, backend, optkind = case
                if optkind == "default":
                    opts = {"direction": "up"}
                else:
                    opts = {"direction": "right", "scale": TimeScale(), "domain": [datetime(2021, 3, 1), datetime(2021, 12, 1)],
                            "labella": {"maxPos": 200}}
                doc, tl = draw.export(backend, data, opts)
                return repr(doc)
    except Hang:
        return "HANG"
    except Exception as e:
        return "EXC:" + type(e).__name__
    raise ValueError(kind)


def all_cases(tier, seed):
    cases = []
    for tag, t in cal_instants(tier):
        units = UNITS
        if tag == "month":
            units = ("day", "week", "month", "year")
        elif tag == "transmonth":
            units = ("month",)
        elif tag == "trans":
            units = ("hour", "day", "week", "month") if tier == "quick" else UNITS
        for u in units:
            cases.append(({"month": "day", "trans": "dst", "transmonth": "dst"}.get(tag, tag), ("cal", u, t)))
    ins = [datetime(1969, 12, 31, 23, 59, 59, 999000), datetime(1970, 1, 1), datetime(2000, 2, 29, 12), datetime(2021, 3, 14, 2, 30),
           datetime(2021, 11, 7, 1, 30), datetime(2021, 4, 4, 1, 45), datetime(2021, 10, 3, 2, 15), datetime(2021, 9, 26, 2, 50),
           datetime(2038, 1, 19, 3, 14, 8), timegrid.seeded_start(seed),
           datetime(2021, 11, 7, 1, 30, fold=1), datetime(2021, 4, 4, 1, 45, fold=1)]
    for t0 in ins:
        for t1 in ins:
            if t0 != t1:
                for q in (t0, t0 + (t1 - t0) / 3, t1 + (t1 - t0) / 7):
                    cases.append(("dst" if 2021 in (t0.year, t1.year) else "day", ("map", t0, t1, q)))
    for y in range(1900, 2101):
        for mo in range(1, 13):
            cases.append(("day", ("dateitems", _dt.date(y, mo, 1))))
    starts = [d + tod for d in DST_DAYS for tod in (timedelta(0), timedelta(hours=1, minutes=30), timedelta(hours=2, minutes=45))]
    # second-resolution domains in years when some zones still had UTC offsets with a seconds part (India until 1905)
    starts += [datetime(1901, 5, 5, 22, 13, 7), datetime(1905, 12, 31, 23, 59, 41), datetime(1900, 1, 1, 0, 0, 3)]
    starts += [d for d in timegrid.month_end_days((2021,)) if d.day in (1, 28, 31)] + [timegrid.seeded_start(seed)]
    spans = [s for i, s in enumerate(timegrid.SPANS_MS) if i % 2 == 0 or 36e5 <= s <= 3 * timegrid.D]
    for st in starts:
        for sp in spans:
            if (st + timedelta(milliseconds=sp)).year > 2200:
                continue
            for m in (2, 5, 10, 17):
                tag = "dst" if st.date() in {d.date() for d in DST_DAYS} else "day"
                cases.append((tag, ("ticks", st, sp, m)))
                if sp >= 10:
                    cases.append((tag, ("nice", st, sp, m)))
    # multi-year domains whose length sits on and up to an hour beside the lengths at which the year step switches
    # (count / 0.75, / 0.35, / 0.15 years of 365 days), from a winter and from a summer start: the two ends are in
    # different daylight-saving states in some of the zones
    for st in (datetime(2001, 1, 1), datetime(2001, 7, 1), datetime(1987, 10, 4, 2, 15)):
        for m in (10, 5):
            for thr in (0.75, 0.35, 0.15):
                for delta in (-3600e3, -1800e3, -1, 0, 1, 1800e3, 3600e3):
                    sp = round(m / thr * 31536e6) + delta
                    if (st + timedelta(milliseconds=sp)).year > 2200:
                        continue
                    cases.append(("dst", ("ticks", st, sp, m)))
                    cases.append(("dst", ("nice", st, sp, m)))
    times = [datetime(2021, 3, 14, 2, 30), datetime(2021, 11, 7, 1, 30, 15), _dt.date(2021, 4, 4), datetime(2021, 10, 3, 2, 15),
             datetime(2021, 9, 26, 3, 0, 0, 999000), datetime(2021, 6, 30, 23, 59, 59), datetime(2021, 11, 7, 1, 10, fold=1)]
    alpha = [(t, 40, x) for t in times for x in (None, "ab")]
    for seq in dc.sequences(alpha, 2):
        data = [dc.datum(l) for l in seq]
        if len({draw.as_number(draw.to_instant(d["time"])) for d in data}) < 2:
            continue
        for backend in ("svg", "tex"):
            for ok in ("default", "explicit"):
                cases.append(("dst", ("export", data, backend, ok)))
    return cases


def plan(tier, seed):
    n = 64
    return [{"tier": tier, "seed": seed, "mod": n, "rem": r} for r in range(n)]


def run_shard(shard):
    acc = Acc()
    mine = [(i, tag, c) for i, (tag, c) in enumerate(all_cases(shard["tier"], shard["seed"])) if i % shard["mod"] == shard["rem"]]
    core.set_tz("UTC")
    base = [run_case(c) for _, _, c in mine]
    for i, tag, c in mine:
        acc.states += 1
        acc.counters["cases"] += 1
        if tag == "dst":
            acc.counters["dst_window_cases"] += 1
            acc.nontriv += 1
    try:
        for zone in ZONES:
            core.set_tz(zone)
            for (i, tag, c), ref in zip(mine, base):
                got = run_case(c)
                acc.evals += 1
                acc.trans += 1
                acc.counters["zone_runs"] += 1
                if got == "HANG" and ref != "HANG":
                    acc.violation({"case": list(c), "zone": zone}, "HANG:%s" % c[0],
                                  "%s %r under TZ=%s did not return (it does under UTC)" % (c[0], _short(c), zone),
                                  order=(KINDS.index(c[0]), i, ZONES.index(zone)))
                elif got != ref:
                    k = next((j for j, (a, b) in enumerate(zip(got, ref)) if a != b), min(len(got), len(ref)))
                    acc.violation({"case": list(c), "zone": zone}, "C18:%s-differs" % c[0],
                                  "%s %r under TZ=%s gives ...%s..., under UTC ...%s..."
                                  % (c[0], _short(c), zone, got[max(0, k - 30):k + 60], ref[max(0, k - 30):k + 60]),
                                  order=(KINDS.index(c[0]), i, ZONES.index(zone)))
    finally:
        core.set_tz("UTC")
    acc.sample({"case": list(mine[0][2]), "zone": ZONES[0]})
    return acc


def _short(c):
    return tuple(str(x)[:40] for x in c[1:4])


def replay(case):
    c = core.freeze(case["case"])
    c = tuple(c)
    if c[0] == "export":
        c = (c[0], [dict(d) for d in case["case"][1]], c[2], c[3])
    try:
        core.set_tz("UTC")
        ref = run_case(c)
        core.set_tz(case["zone"])
        got = run_case(c)
    finally:
        core.set_tz("UTC")
    if got == "HANG" and ref != "HANG":
        return "HANG:%s" % c[0], "%s under TZ=%s did not return" % (c[0], case["zone"])
    if got != ref:
        return "C18:%s-differs" % c[0], "%s under TZ=%s differs from the UTC run" % (c[0], case["zone"])
    return None


def snippet(case):
    return "# run under TZ=%s and under TZ=UTC and compare:\n# case %r" % (case["zone"], case["case"])
