"""C04 - layering conserves labels, builds complete stub chains within capacity.

(a) Distributor.distribute over the full product of its option space and every
label multiset up to the bound; (b) Force.compute()/getLayers() on the layout
scope of mc/layout.py."""
import itertools
from collections import Counter
from fractions import Fraction

from mc import layout
from mc.core import Acc

ID = "C04"
RULE = ("E-INPUT: (a) every label multiset (13 positions x widths {1,4,20}) up to the size bound x the full product of "
        "layerWidth x density x nodeSpacing x stubWidth x algorithm (540 option sets) through the real "
        "Distributor.distribute, structural invariant (conservation, contiguous layers, complete stub chains with "
        "parent/child links, payload, stub width, single-layer and capacity clauses); (b) the C01 layout scope through "
        "Force.compute() + getLayers() + layerIndex; (c) every multiset of 3 (thorough 4) labels over 12 letters distributed with every bounded option set, the laid-out labels cloned (Node.clone) and the clones distributed again with 3 other option sets: both layerings must satisfy the invariant on their own. Non-trivial: >= 2 layers produced.")
ASSUMPTIONS = ["cases with |required - budget| < 1e-9 are judged only when density*layerWidth is exact in binary (an exact fit fits); otherwise counted, not judged",
               "trailing empty layers from algorithm 'simple' are not flagged (not forbidden by the statement)"]
REQUIRED_COUNTERS = ("dist_multi_layer", "engine_cases", "dist_three_or_more_layers", "edge_cases", "clone_redistributions_of_multi_layer")

POS13 = [x / 2 for x in range(13)]
ALPHA = [(p, w) for p in POS13 for w in (1, 4, 20)]
ALPHA12 = [(p, w) for p in (0, 1, 1.5, 3, 6, 6.5) for w in (1, 4)]
OPTS = [dict(layerWidth=lw, density=d, nodeSpacing=sp, stubWidth=sw, algorithm=al)
        for lw in (None, 6, 10, 14, 30) for d in (0.3, 0.5, 0.75, 1.0) for sp in (0, 1.5, 3)
        for sw in (0, 1, 2) for al in ("overlap", "simple", "none")]
OPTS60 = [o for i, o in enumerate(OPTS) if o["layerWidth"] is not None and i % 7 in (0, 3) and o["algorithm"] != "none"][:60]


def bounds(tier, seed):
    return {"distributor": {"alphabet": "13 positions x widths {1,4,20}", "max_labels": 3 if tier == "quick" else 4,
                            "option_sets": len(OPTS),
                            "reduced": "n<=6 over 12 letters x %d option sets" % len(OPTS60) if tier == "thorough" else "none"},
            "engine": layout.bounds(tier, seed)}


def plan(tier, seed):
    shards = []
    nsh = 64 if tier == "quick" else 192
    nmax = 3 if tier == "quick" else 4
    for r in range(nsh):
        shards.append({"kind": "dist", "alpha": "A", "nmax": nmax, "opts": "full", "mod": nsh, "rem": r})
    if tier == "thorough":
        for r in range(32):
            shards.append({"kind": "dist", "alpha": "B", "nmax": 6, "opts": "o60", "mod": 32, "rem": r})
    # deep slice: 5..9 labels (>= 3 layers with the overlap algorithm) x a reduced option menu
    for n in range(5, 10):
        shards.append({"kind": "deep", "n": n})
    # boundary values: required width = budget x (1 +- eps) for eps from 1e-5 to 5e-3 (the split decision is a threshold test)
    shards.append({"kind": "edge"})
    # the caller clones laid-out labels and distributes the clones again with other options
    for n in ((3,) if tier == "quick" else (3, 4)):
        for r in range(8):
            shards.append({"kind": "clones", "n": n, "mod": 8, "rem": r})
    # seeded slice: shifted positions, another wide label
    shards.append({"kind": "dist", "alpha": "S", "nmax": 2, "opts": "full", "mod": 1, "rem": 0, "seed": seed})
    for s in layout.plan_layout(tier, seed):
        s = dict(s)
        s["engine"] = True
        shards.append(s)
    return shards


def alpha_of(shard):
    if shard["alpha"] == "A":
        return ALPHA
    if shard["alpha"] == "B":
        return ALPHA12
    off = [0.25, 7, -4, 50.5, 3, -0.5, 200, 11.5][shard["seed"] % 8]
    w = [2, 9, 12, 6, 30, 0.5][(shard["seed"] // 8) % 6]
    return [(p + off, ww) for p in POS13[::3] for ww in (w, 4)]


def check_structure(layers, nodes, stub_width):
    """Conservation / contiguity / complete stub chains.  -> (key, reason) | None"""
    if any(len(l) == 0 for l in layers):
        return "C04:gap-in-layers", "an empty layer lies between non-empty ones: sizes %r" % [len(l) for l in layers]
    ids = Counter(id(x) for l in layers for x in l)
    if any(v > 1 for v in ids.values()):
        return "C04:duplicate-item", "an item occurs twice in the layering"
    where = {}
    for li, l in enumerate(layers):
        for x in l:
            where[id(x)] = li
    nstubs = 0
    for nd in nodes:
        if id(nd) not in where:
            return "C04:label-lost", "label (pos %r, w %r) is in no layer" % (nd.idealPos, nd.width)
        if nd.isStub():
            return "C04:label-is-stub", "an input label reports isStub()"
        k = where[id(nd)]
        cur, j = nd, k
        while cur.parent is not None:
            st = cur.parent
            j -= 1
            nstubs += 1
            if nstubs > 100000:
                return "C04:chain-cycle", "parent chain does not end"
            if where.get(id(st)) != j:
                return ("C04:stub-layer", "label in layer %d: stub #%d is in layer %r, expected %d"
                        % (k, k - j, where.get(id(st)), j))
            if st.child is not cur:
                return "C04:child-link", "stub.child does not point back to the item it stands for"
            if not st.isStub():
                return "C04:stub-not-stub", "chain element does not report isStub()"
            if st.idealPos != nd.idealPos or st.data is not nd.data:
                return ("C04:stub-payload", "stub carries idealPos %r / data %r, label has %r / %r"
                        % (st.idealPos, st.data, nd.idealPos, nd.data))
            if st.width != stub_width:
                return "C04:stub-width", "stub width %r, configured %r" % (st.width, stub_width)
            cur = st
        if j != 0:
            return ("C04:chain-incomplete", "label (pos %r, w %r) in layer %d has only %d stubs"
                    % (nd.idealPos, nd.width, k, k - j))
    if sum(len(l) for l in layers) != len(nodes) + nstubs:
        return ("C04:extra-items", "%d items in the layers, %d labels + %d chained stubs"
                % (sum(len(l) for l in layers), len(nodes), nstubs))
    return None


def capacity_clauses(labels, layers, o):
    """The statement's last sentence for one layering. o: layerWidth (None = no bound), density, nodeSpacing, algorithm.
    -> (key, reason, ambiguous)"""
    nl = len(layers)
    amb = False
    if o["algorithm"] != "none":
        sp = o["nodeSpacing"]
        req = sum(w for _, w in labels) + sp * (len(labels) - 1)
        if o["layerWidth"] is None:
            if nl != 1:
                return "C04:split-without-bound", "%d layers although no layer width is configured" % nl, False
        else:
            budget = o["density"] * o["layerWidth"]
            exact = Fraction(o["density"]) * Fraction(o["layerWidth"])
            reqx = sum(Fraction(w) for _, w in labels) + Fraction(sp) * (len(labels) - 1)
            dyadic = all(Fraction(w).denominator <= 1024 for _, w in labels) and Fraction(sp).denominator <= 1024
            if abs(req - budget) < 1e-9 and not (Fraction(budget) == exact and reqx == exact and dyadic):
                # the float product is not the exact budget, or the widths are floats whose sum is not exact in every
                # order of summation (3.3 + 0.5 + 3): either answer is defensible
                amb = True
            elif req <= budget:
                if nl != 1:
                    return ("C04:split-though-fits", "labels need %r <= budget %r but got %d layers" % (req, budget, nl), False)
            elif o["algorithm"] == "overlap" and len(labels) >= 3:
                if nl < 2:
                    return "C04:not-split", "labels need %r > budget %r but stayed in one layer" % (req, budget), False
                for li, l in enumerate(layers):
                    nlab = sum(1 for x in l if not x.isStub())
                    wsum = sum(x.width for x in l) + sp * (len(l) - 1)
                    if nlab > 2 and wsum > budget + 1e-9:
                        return ("C04:over-budget", "layer %d holds %d labels and needs %r > budget %r"
                                % (li, nlab, wsum, budget), False)
    return None, None, amb


def check_distribution(labels, o):
    """One real distribution + structural invariant.  -> (key, reason, nlayers, ambiguous)"""
    from labella.distributor import Distributor
    from labella.node import Node
    nodes = [Node(p, w, data=("d", i)) for i, (p, w) in enumerate(labels)]
    try:
        layers = Distributor(dict(o)).distribute(nodes)
    except Exception as e:
        return "EXC:" + type(e).__name__, "distribute raised %r" % (e,), 0, False
    layers = [list(l) for l in layers]
    while layers and not layers[-1]:
        layers.pop()
    nl = len(layers)
    bad = check_structure(layers, nodes, o["stubWidth"])
    if bad:
        return bad[0], bad[1], nl, False
    key, reason, amb = capacity_clauses(labels, layers, o)
    if key:
        return key, reason, nl, False
    return None, None, nl, amb


def check_redistribution(labels, o_first, o_second):
    """Labels are distributed once, the caller clones the laid-out labels (Node.clone) and distributes the clones with
    other options: the second layering must satisfy the structural invariant on its own (no items from the first one)."""
    from labella.distributor import Distributor
    from labella.node import Node
    nodes = [Node(p, w, data=("d", i)) for i, (p, w) in enumerate(labels)]
    try:
        first = Distributor(dict(o_first)).distribute(nodes)
        clones = [n.clone() for n in nodes]
        layers = [list(l) for l in Distributor(dict(o_second)).distribute(clones)]
    except Exception as e:
        return "EXC:" + type(e).__name__, "distribute / clone / distribute raised %r" % (e,), 0
    while layers and not layers[-1]:
        layers.pop()
    bad = check_structure(layers, clones, o_second["stubWidth"])
    if bad:
        return bad[0] + ":clones", "clones of labels laid out with %r, distributed with %r: %s" % (o_first, o_second, bad[1]), len(first)
    first = [list(l) for l in first]
    while first and not first[-1]:
        first.pop()
    bad = check_structure(first, nodes, o_first["stubWidth"])
    if bad:
        return bad[0] + ":after-clones", "the first layering after its labels were cloned and the clones laid out: %s" % bad[1], len(first)
    return None, None, len(first)


def run_shard(shard):
    if shard.get("engine"):
        acc = layout.run_layout_shard(ID, shard)
        acc.counters["engine_cases"] += acc.evals
        return acc
    acc = Acc()
    if shard["kind"] == "edge":
        for lw in (10, 1000, 4000):
            for dens in (0.75, 0.85, 1.0):
                for sp in (0, 3):
                    for algo in ("overlap", "simple"):
                        o = dict(layerWidth=lw, density=dens, nodeSpacing=sp, stubWidth=1, algorithm=algo)
                        budget = dens * lw
                        for n in (3, 4, 6):
                            for eps in (1e-5, 1e-4, 3e-4, 1e-3, 5e-3):
                                for sign in (1, -1):
                                    req = budget * (1 + sign * eps)
                                    w0 = float(int(budget / n) - sp)
                                    last = req - w0 * (n - 1) - sp * (n - 1)
                                    if last <= 0 or w0 <= 0:
                                        continue
                                    labels = [(i * 1.5, w0) for i in range(n - 1)] + [((n - 1) * 1.5, last)]
                                    key, reason, nl, amb = check_distribution(labels, o)
                                    acc.evals += 1
                                    acc.states += 1
                                    acc.trans += 1
                                    acc.counters["edge_cases"] += 1
                                    if nl > 1:
                                        acc.nontriv += 1
                                    if key:
                                        acc.violation({"labels": labels, "dist_opts": o}, key, reason, order=(40, n, eps))
        acc.sample({"labels": labels, "dist_opts": o})
        return acc
    if shard["kind"] == "clones":
        narrow = [o for o in OPTS if o["layerWidth"] is not None and o["algorithm"] != "none"]
        wide = [dict(layerWidth=1000, density=0.85, nodeSpacing=3, stubWidth=1, algorithm="overlap"),
                dict(layerWidth=None, density=0.85, nodeSpacing=3, stubWidth=2, algorithm="overlap"),
                dict(layerWidth=12, density=0.5, nodeSpacing=0, stubWidth=1, algorithm="simple")]
        for ms in itertools.combinations_with_replacement(ALPHA12, shard["n"]):
            labels = list(ms)
            acc.states += 1
            for oi, o1 in enumerate(narrow[shard["rem"]::shard["mod"]]):
                for wi, o2 in enumerate(wide):
                    key, reason, nl = check_redistribution(labels, o1, o2)
                    acc.evals += 1
                    acc.trans += 1
                    acc.counters["clone_redistributions"] += 1
                    if nl > 1:
                        acc.nontriv += 1
                        acc.counters["clone_redistributions_of_multi_layer"] += 1
                    if key:
                        acc.violation({"labels": labels, "dist_opts": o1, "then": o2}, key, reason, order=(60, len(labels), oi, wi))
        acc.sample({"labels": labels, "dist_opts": o1, "then": o2})
        return acc
    if shard["kind"] == "deep":
        n = shard["n"]
        for pi, pat in enumerate(([(3, 4)] * n, [(3 + (i % 3) * 0.5, 4 if i % 2 else 1) for i in range(n)],
                                  [(i * 1.5, 4) for i in range(n)], [(2, 20)] + [(2.5, 1)] * (n - 1))):
            acc.states += 1
            for oi, o in enumerate(OPTS):
                if o["layerWidth"] is None or o["algorithm"] == "none":
                    continue
                key, reason, nl, amb = check_distribution(pat, o)
                acc.evals += 1
                acc.trans += 1
                if nl > 2:
                    acc.counters["dist_three_or_more_layers"] += 1
                if nl > 1:
                    acc.nontriv += 1
                    acc.counters["dist_multi_layer"] += 1
                if key:
                    acc.violation({"labels": pat, "dist_opts": o}, key, reason, order=(50 + n, pi, oi))
        acc.sample({"labels": pat, "dist_opts": o})
        return acc
    alpha = alpha_of(shard)
    opts = OPTS if shard["opts"] == "full" else OPTS60
    for idx, ms in enumerate(layout.multisets(alpha, shard["nmax"])):
        if idx % shard["mod"] != shard["rem"]:
            continue
        labels = [alpha[i] for i in ms]
        acc.states += 1
        for oi, o in enumerate(opts):
            key, reason, nl, amb = check_distribution(labels, o)
            acc.evals += 1
            acc.trans += 1
            if nl > 1:
                acc.nontriv += 1
                acc.counters["dist_multi_layer"] += 1
            if amb:
                acc.counters["dist_boundary_ambiguous"] += 1
            if key:
                acc.violation({"labels": labels, "dist_opts": o}, key, reason, order=(len(labels), idx, oi))
        if idx % 499 == shard["rem"]:
            acc.sample({"labels": labels, "dist_opts": o})
    return acc


def replay(case):
    labels = [tuple(x) for x in case["labels"]]
    if "then" in case:
        key, reason, _ = check_redistribution(labels, case["dist_opts"], case["then"])
        return (key, reason) if key else None
    if "dist_opts" in case:
        key, reason, _, _ = check_distribution(labels, case["dist_opts"])
        return (key, reason) if key else None
    return layout.replay_layout(ID, case)


def snippet(case):
    if "dist_opts" in case:
        return ("from labella.distributor import Distributor\nfrom labella.node import Node\n"
                "nodes=[Node(p,w,('d',i)) for i,(p,w) in enumerate(%r)]\n"
                "for k,l in enumerate(Distributor(%r).distribute(nodes)): print(k,l)"
                % ([tuple(x) for x in case["labels"]], case["dist_opts"]))
    return layout.snippet_layout(case)
