"""C12 - the linear scale is the affine map through its end points.

E-INPUT: domain x range x query grid against the exact affine map (Fractions).
E-HIST: breadth-first search over domain/range/clamp/nice/copy call histories
on a pool of scales, states deduplicated by an aliasing-aware fingerprint."""
import collections
import itertools
from fractions import Fraction as F

from mc.core import Acc, Hang, fp_hash, horizon

ID = "C12"
RULE = ("E-INPUT: every (domain, range, query) with domain/range end points from 13 floats of magnitude 1e-6..1e9 (both signs, "
        "both orders, a != b) + a seeded value + near-tie domains v..v(1+2^-40|1e-10|3e-7), queries = end points, interior and exterior points; exact affine reference in "
        "rationals; clamp on/off; for every ordered pair of the integers and halves -10..20 and m in {default,2,3,5,8,20}: domain, range, [clamp], nice(m), then the map through the reported domain. E-HIST: BFS over every history of domain(7)/range(6)/clamp(2)/nice()/nice(2)/nice(3)/interpolate(linear)/copy()/deepcopy()/getter read-modify-write/caller-kept lists/one-shot iterators calls on "
        "a pool of <=3 scales up to the depth bound (quick 4; thorough 5, and 7 for the core alphabet of 4 domains, 4 ranges, clamp, nice, copy), each state rebuilt by replaying the history on fresh "
        "real objects, dedup by object-graph fingerprint incl. aliasing; invariants: end points of the reported domain map to "
        "the reported range (method and call form), with clamping enabled outputs stay inside the range, operations on one scale leave every other scale's observations unchanged. "
        "Non-trivial (E-HIST): transitions on pools with >= 2 scales; (E-INPUT): query not an end point.")
ASSUMPTIONS = ["float error bar: 8 eps (|r0|+|r1|)(1+|t|) forward, propagated through the second map for round trips",
               "the setters copy what they are given: a caller that keeps editing its list afterwards does not change the scale (driven since wave 7)"]
REQUIRED_COUNTERS = ("grid_evaluations", "hist_transitions", "hist_multi_scale_transitions", "hist_nice_after_copy", "near_tie_domains")
EPS = 2.220446049250313e-16
VALS = [0.0, 1e-6, -1e-6, 0.13, -0.13, 1.0, -1.0, 9.7, -9.7, 360.0, -360.0, 1e9, -1e9]


def bounds(tier, seed):
    return {"grid_values": VALS + [_seedval(seed)], "hist_depth": 4 if tier == "quick" else 6, "pool": 3,
            "ops": [o[0] + repr(o[1]) for o in OPS]}


def _seedval(seed):
    return [123.456, -0.001953125, 7e5, 3.3333333333333335, -42.0, 1e-3][seed % 6]


# ------------------------------------------------------------------ E-INPUT
def queries(a, b):
    span = b - a
    return [a, b, a + span / 2, a + span / 3, a + span * 0.9, a - span, b + span, a - 2 * span, b + 2 * span, a + span * 1e-3,
            b - span * 8e-10, b + span * 3e-10, a + span * 5e-10, b - span * 1e-12]  # just off the end points


def judge_grid(a, b, r0, r1, acc=None):
    from labella.scale import LinearScale
    try:
        s = LinearScale().domain([a, b]).range([r0, r1])
        c = LinearScale().domain([a, b]).range([r0, r1]).clamp(True)
        ya, yb = s(a), s(b)
        # the same scales built through the constructor arguments must behave identically
        s2 = LinearScale([a, b], [r0, r1])
        c2 = LinearScale([a, b], [r0, r1], None, True)
        for x in queries(a, b)[:6]:
            if s2(x) != s(x) or c2(x) != c(x) or s2.invert(s(x)) != s.invert(s(x)):
                return ("C12:constructor-differs", "LinearScale(domain, range%s) differs from the scale configured through setters "
                        "at x=%r: %r vs %r (clamped %r vs %r)" % ("", x, s2(x), s(x), c2(x), c(x)))
    except Exception as e:
        return "EXC:" + type(e).__name__, "LinearScale domain [%r,%r] range [%r,%r] raised %r" % (a, b, r0, r1, e)
    where = "domain [%r, %r] range [%r, %r]" % (a, b, r0, r1)
    if ya != r0 or yb != r1:
        return "C12:end-points", "%s: end points map to %r, %r" % (where, ya, yb)
    if s.invert(r0) != a or s.invert(r1) != b:
        return "C12:end-points-inverse", "%s: invert of the range end points gives %r, %r" % (where, s.invert(r0), s.invert(r1))
    A, B, R0, R1 = F(a), F(b), F(r0), F(r1)
    prev = None
    pts = []
    for x in queries(a, b):
        t = (F(x) - A) / (B - A)
        exact = R0 + (R1 - R0) * t
        try:
            y = s(x)
            yc = c(x)
            xr = s.invert(y)
        except Exception as e:
            return "EXC:" + type(e).__name__, "%s at x=%r raised %r" % (where, x, e)
        bar = 8 * EPS * (abs(r0) + abs(r1)) * (1 + abs(float(t))) + 1e-300
        if acc is not None:
            acc.counters["grid_evaluations"] += 1
            acc.evals += 1  # one evaluation = one (domain, range, query) triple
            acc.trans += 1
            if x not in (a, b):
                acc.nontriv += 1
        if abs(F(y) - exact) > bar:
            return "C12:not-affine", "%s: scale(%r) = %r, affine map gives %r" % (where, x, y, float(exact))
        # round trip, condition-number aware
        rbar = 2 * (abs(b - a) * bar / abs(r1 - r0) + 8 * EPS * (abs(a) + abs(b)) * (1 + abs(float(t)))) + 1e-300
        if abs(xr - x) > rbar:
            return "C12:invert", "%s: invert(scale(%r)) = %r (error bar %r)" % (where, x, xr, rbar)
        lo, hi = min(r0, r1), max(r0, r1)
        if not (lo <= yc <= hi):
            return "C12:clamp-range", "%s: clamped scale(%r) = %r leaves the range" % (where, x, yc)
        if 0 <= t <= 1 and abs(yc - y) > bar:
            return "C12:clamp-inside", "%s: clamped scale(%r) = %r, unclamped %r" % (where, x, yc, y)
        if t < 0 and yc != r0 or t > 1 and yc != r1:
            return "C12:clamp-outside", "%s: clamped scale(%r) = %r, expected the nearer range end" % (where, x, yc)
        pts.append((t, y, bar))
    pts.sort()
    for (t1, y1, b1), (t2, y2, b2) in zip(pts, pts[1:]):
        if t1 == t2:
            continue
        d = (y2 - y1) * (1 if r1 > r0 else -1)
        if abs(float((R1 - R0) * (t2 - t1))) > b1 + b2 and d <= 0:
            return "C12:not-monotone", "%s: images of t=%r and t=%r are not in order: %r, %r" % (where, float(t1), float(t2), y1, y2)
    # y -> x -> y
    for y in (r0 + (r1 - r0) * 0.25, r1 + (r1 - r0)):
        try:
            back = s(s.invert(y))
        except Exception as e:
            return "EXC:" + type(e).__name__, "%s: scale(invert(%r)) raised %r" % (where, y, e)
        u = (F(y) - R0) / (R1 - R0)
        ibar = 8 * EPS * (abs(a) + abs(b)) * (1 + abs(float(u)))
        ybar = 2 * (abs(r1 - r0) * ibar / abs(b - a) + 8 * EPS * (abs(r0) + abs(r1)) * (1 + abs(float(u)))) + 1e-300
        if abs(back - y) > ybar:
            return "C12:invert", "%s: scale(invert(%r)) = %r (error bar %r)" % (where, y, back, ybar)
    return None


# ------------------------------------------------------------------ E-HIST
DOM = [[0, 1], [10, -10], [0.13, 9.7], [-1, 3], [-2, 3], [0, 1.0000000003], [1.5, 14.5]]
RNG = [[0, 1], [100, 0], [-5, 5], [-1, 640], [-2, 640], [0, 1.0000000005]]
OPS = ([("domain", d) for d in DOM] + [("range", r) for r in RNG]
       + [("clamp", True), ("clamp", False), ("nice", None), ("nice", 3), ("nice", 2), ("interpolate", None), ("copy", None), ("deepcopy", None), ("rmw-range", None), ("rmw-domain", None),
          ("alias-range", RNG[1]), ("alias-domain", DOM[3]), ("iter-range", RNG[2]), ("iter-domain", DOM[2]),
          ("alias-domain", [-1.0, 3.5]), ("alias-range", [0.0, 640.5]), ("share-domain", None), ("share-range", None)])
CORE_OPS = ([("domain", d) for d in DOM[:4]] + [("range", r) for r in RNG[:4]]
            + [("clamp", True), ("clamp", False), ("nice", None), ("nice", 3), ("copy", None)])
PROBES = (-1, 0, .5, 1, 3, 9.7, 20)
PRE = (0, 50, -5)


def build(hist):
    from labella.scale import LinearScale
    pool = [LinearScale()]
    for (i, op, arg) in hist:
        s = pool[i]
        if op == "domain":
            s.domain(list(arg))
        elif op == "range":
            s.range(list(arg))
        elif op == "clamp":
            s.clamp(arg)
        elif op == "nice":
            s.nice(arg) if arg is not None else s.nice()
        elif op == "interpolate":  # the setter, given the library's own (linear) interpolator
            from labella.scale import d3_interpolateNumber
            s.interpolate(d3_interpolateNumber)
        elif op == "copy":
            pool.append(s.copy())
        elif op == "deepcopy":  # a duplicate made through the standard copy protocol (option dicts holding a scale get deep-copied)
            import copy as _copy
            pool.append(_copy.deepcopy(s))
        elif op == "share-domain":  # another scale is given what this one's getter returns (lists of floats, as they are)
            pool.append(LinearScale().domain(s.domain()).range(list(s.range())))
        elif op == "share-range":
            pool.append(LinearScale().domain(list(s.domain())).range(s.range()))
        elif op == "rmw-range":  # read-modify-write: take the list the getter returns, edit it, hand it back
            r = s.range()
            r.reverse()
            s.range(r)
        elif op == "rmw-domain":
            d = s.domain()
            d.reverse()
            s.domain(d)
        elif op == "iter-range":  # a one-shot iterable is as good as a list
            s.range(v for v in arg)
        elif op == "iter-domain":
            s.domain(reversed(list(reversed(arg))))
        elif op == "alias-range":  # the caller goes on using the list it handed to the setter
            r = list(arg)
            s.range(r)
            r.reverse()
            r.append(7)
        elif op == "alias-domain":
            d = list(arg)
            s.domain(d)
            d.reverse()
            d.append(7)
    return pool


def obs(s):
    return (tuple(s.domain()), tuple(s.range()), s.clamp(),
            tuple(round(s(x), 9) for x in PROBES), tuple(round(s.invert(y), 9) for y in PRE))


def invariant(pool):
    for k, s in enumerate(pool):
        d, r = s.domain(), s.range()
        for j in (0, 1):
            y = s.scale(d[j])  # the method form first: it must not lag behind the function form
            if abs(y - r[j]) > 1e-9 * max(1, abs(r[j])):
                return ("C12:hist-end-points", "scale #%d reports domain %r and range %r but scale(%r) = %r"
                        % (k, list(d), list(r), d[j], y))
            if s(d[j]) != y:
                return ("C12:hist-call-forms-differ", "scale #%d: scale(%r) = %r but the call form gives %r" % (k, d[j], y, s(d[j])))
        if s.clamp():  # with clamping enabled outputs never leave the range
            lo, hi = min(r[0], r[-1]), max(r[0], r[-1])
            for x in (d[0] - 2 * (d[-1] - d[0]), d[-1] + 3 * (d[-1] - d[0]), -1e6, 1e6):
                y = s(x)
                if not (lo - 1e-9 * max(1, abs(lo)) <= y <= hi + 1e-9 * max(1, abs(hi))):
                    return ("C12:hist-clamp", "scale #%d has clamping enabled, range %r, but scale(%r) = %r" % (k, list(r), x, y))
    return None


def check_history(hist):
    """Replay hist (last op is the one under test). -> (key, reason)|None"""
    try:
        with horizon(10.0):
            before = [obs(s) for s in build(hist[:-1])]
            pool = build(hist)
            bad = invariant(pool)
            after = [obs(s) for s in pool]
    except Hang:
        return "HANG", "history %r did not return" % (hist,)
    except Exception as e:
        return "EXC:" + type(e).__name__, "history %r raised %r" % (hist, e)
    if bad:
        return bad
    i = hist[-1][0]
    # a setter sets: the scale must report exactly what it was just given
    if hist[-1][1] in ("domain", "alias-domain", "iter-domain") and list(after[i][0]) != [float(v) for v in hist[-1][2]]:
        return ("C12:hist-setter-ignored", "after domain(%r) the scale reports the domain %r (history %r)"
                % (hist[-1][2], list(after[i][0]), hist))
    if hist[-1][1] in ("range", "alias-range", "iter-range") and list(after[i][1]) != list(hist[-1][2]):
        return ("C12:hist-setter-ignored", "after range(%r) the scale reports the range %r (history %r)"
                % (hist[-1][2], list(after[i][1]), hist))
    for k in range(len(before)):
        if k != i and before[k] != after[k]:
            return ("C12:hist-interference", "%s(%r) on scale #%d changed scale #%d: %r -> %r"
                    % (hist[-1][1], hist[-1][2], i, k, before[k][:2], after[k][:2]))
    if hist[-1][1] in ("copy", "deepcopy") and after[-1] != after[i]:
        return "C12:hist-copy-differs", "a fresh copy observes %r, its original %r" % (after[-1][:2], after[i][:2])
    return None


def bfs(prefix, depth, acc, ops=None):
    ops = OPS if ops is None else ops
    seen = set()
    frontier = collections.deque([list(prefix)])
    first = True
    while frontier:
        h = frontier.popleft()
        if first:
            todo = [None]  # the prefix itself is a transition to check
            first = False
            bad = check_history(h) if h else None
            pool = build(h)
            seen.add(fp_hash(pool))
            if bad:
                acc.violation({"hist": h}, bad[0], bad[1], order=(len(h), 0))
        if len(h) >= depth:
            continue
        pool = build(h)
        for i in range(len(pool)):
            for op, arg in ops:
                if op in ("copy", "deepcopy", "share-domain", "share-range") and len(pool) >= 3:
                    continue
                nh = h + [(i, op, arg)]
                bad = check_history(nh)
                acc.evals += 1
                acc.trans += 1
                acc.counters["hist_transitions"] += 1
                if len(pool) >= 2:
                    acc.counters["hist_multi_scale_transitions"] += 1
                    acc.nontriv += 1
                if op == "nice" and any(o[1] in ("copy", "deepcopy") for o in h):
                    acc.counters["hist_nice_after_copy"] += 1
                if bad:
                    acc.violation({"hist": nh}, bad[0], bad[1], order=(len(nh), OPS.index((op, arg))))
                    continue  # do not expand a broken state
                fp = fp_hash(build(nh))
                if fp not in seen:
                    seen.add(fp)
                    frontier.append(nh)
    acc.state_set |= seen
    return seen


def near_ties(vals):
    """Non-degenerate domains much narrower than their magnitude (both orders)."""
    out = []
    for v in vals:
        if v == 0:
            continue
        for rel in (2.0 ** -40, 1e-10, 3e-7):
            w = v * (1 + rel)
            if w != v:
                out += [(v, w), (w, v)]
    return out


def judge_default_constructor():
    """Constructor keywords on the default unit scale (no domain/range given)."""
    from labella.scale import LinearScale
    for kw, setter in (({"clamp": True}, lambda s: s.clamp(True)), ({"clamp": False}, lambda s: s.clamp(False)),
                       ({"domain": [2, 4]}, lambda s: s.domain([2, 4])), ({"_range": [5, -5]}, lambda s: s.range([5, -5])),
                       ({"domain": [2, 4], "clamp": True}, lambda s: s.domain([2, 4]).clamp(True))):
        try:
            a = LinearScale(**kw)
            b = setter(LinearScale())
            for x in (-3.0, 0.0, 0.25, 1.0, 1.75, 3.0, 9.0):
                if a(x) != b(x) or a.invert(x) != b.invert(x) or a.clamp() != b.clamp():
                    return ("C12:constructor-differs", "LinearScale(%s) maps %r to %r / inverts to %r; the same configuration through "
                            "setters gives %r / %r" % (", ".join("%s=%r" % kv for kv in kw.items()), x, a(x), a.invert(x), b(x), b.invert(x)))
            ca = a.copy()
            if any(ca(x) != a(x) for x in (-3.0, 0.5, 3.0)):
                return "C12:hist-copy-differs", "copy of LinearScale(%r) differs from its original" % (kw,)
        except Exception as e:
            return "EXC:" + type(e).__name__, "LinearScale(%r) raised %r" % (kw, e)
    return None


NICE_VALUES = [v / 2 for v in range(-20, 41)]  # integers and halves -10 .. 20


def judge_after_nice(a, b, m, clamp):
    """domain, range, [clamp], nice(m): the scale must be the affine map through the domain it then reports."""
    from labella.scale import LinearScale
    try:
        s = LinearScale().domain([a, b]).range([0, 640])
        if clamp:
            s.clamp(True)
        s.nice(m) if m is not None else s.nice()
        d = s.domain()
        ys = [s(d[0]), s(d[1]), s((d[0] + d[1]) / 2), s.invert(160)]
    except Exception as e:
        return "EXC:" + type(e).__name__, "domain([%r, %r]).range([0, 640]).nice(%r) raised %r" % (a, b, m, e)
    want = [0, 640, 320, d[0] + (d[1] - d[0]) / 4]
    for y, w in zip(ys, want):
        if abs(y - w) > 1e-9 * max(1.0, abs(w), abs(d[0]), abs(d[1])):
            return ("C12:after-nice", "domain([%r, %r]).range([0, 640]).nice(%r) reports the domain %r but maps its ends, its middle and "
                    "inverts 160 to %r (expected %r)" % (a, b, m, list(d), ys, want))
    return None


def plan(tier, seed):
    shards = [{"kind": "ctor"}]
    for r in range(4):
        shards.append({"kind": "afternice", "mod": 4, "rem": r})
    vals = VALS + [_seedval(seed)]
    pairs = [(a, b) for a in vals for b in vals if a != b]
    n = 32
    for r in range(n):
        shards.append({"kind": "grid", "mod": n, "rem": r, "seed": seed})
    # quick: the full alphabet to depth 4; thorough: the full alphabet to depth 5 and the core alphabet (4 domains, 4 ranges,
    # clamp on/off, nice(), nice(3), copy()) to depth 7 - the full alphabet at depth 6 is beyond a few hours
    for op in OPS:
        shards.append({"kind": "hist", "prefix": [[0, op[0], op[1]]], "depth": 4 if tier == "quick" else 5})
    if tier == "thorough":
        for op in CORE_OPS:
            shards.append({"kind": "hist", "prefix": [[0, op[0], op[1]]], "depth": 7, "ops": "core"})
    return shards


def run_shard(shard):
    acc = Acc()
    if shard["kind"] == "ctor":
        bad = judge_default_constructor()
        acc.evals += 1
        acc.states += 1
        acc.trans += 1
        if bad:
            acc.violation({"ctor": True}, bad[0], bad[1], order=(0, 0))
        acc.sample({"ctor": True})
        return acc
    if shard["kind"] == "afternice":
        k = 0
        for a in NICE_VALUES:
            for b in NICE_VALUES:
                if a == b:
                    continue
                k += 1
                if k % shard["mod"] != shard["rem"]:
                    continue
                acc.states += 1
                for m in (None, 2, 3, 5, 8, 20):
                    bad = judge_after_nice(a, b, m, bool(k % 2))
                    acc.evals += 1
                    acc.trans += 1
                    acc.nontriv += 1
                    acc.counters["maps_checked_after_nice"] += 1
                    if bad:
                        acc.violation({"afternice": [a, b, m, bool(k % 2)]}, bad[0], bad[1], order=(1, k, m or 0))
        acc.sample({"afternice": [a, b, m, bool(k % 2)]})
        return acc
    if shard["kind"] == "grid":
        vals = VALS + [_seedval(shard["seed"])]
        pairs = [(a, b) for a in vals for b in vals if a != b]
        k = 0
        for (a, b) in pairs + near_ties(vals):
            if abs(b - a) < 1e-3 * max(abs(a), abs(b)):
                acc.counters["near_tie_domains"] += 1
            for (r0, r1) in pairs:
                k += 1
                if k % shard["mod"] != shard["rem"]:
                    continue
                acc.states += 1
                bad = judge_grid(a, b, r0, r1, acc)
                if bad:
                    acc.violation({"a": a, "b": b, "r0": r0, "r1": r1}, bad[0], bad[1], order=(0, k))
        acc.sample({"a": a, "b": b, "r0": r0, "r1": r1})
        return acc
    prefix = [tuple(p) for p in shard["prefix"]]
    bfs(prefix, shard["depth"], acc, CORE_OPS if shard.get("ops") == "core" else None)
    acc.sample({"hist": prefix + [(0, "copy", None), (1, "nice", None)]})
    return acc


def replay(case):
    if case.get("ctor"):
        return judge_default_constructor()
    if "afternice" in case:
        return judge_after_nice(*case["afternice"])
    if "hist" in case:
        hist = [(h[0], h[1], h[2]) for h in case["hist"]]
        for k in range(1, len(hist) + 1):
            bad = check_history(hist[:k])
            if bad:
                return bad
        return None
    return judge_grid(case["a"], case["b"], case["r0"], case["r1"])


def snippet(case):
    if "hist" in case:
        lines = ["from labella.scale import LinearScale", "pool=[LinearScale()]"]
        for i, op, arg in case["hist"]:
            if op == "copy":
                lines.append("pool.append(pool[%d].copy())" % i)
            elif op == "nice" and arg is None:
                lines.append("pool[%d].nice()" % i)
            else:
                lines.append("pool[%d].%s(%r)" % (i, op, arg))
        lines.append("for s in pool: print(s.domain(), s.range(), s(s.domain()[0]), s(s.domain()[1]))")
        return "\n".join(lines)
    return ("from labella.scale import LinearScale\ns=LinearScale().domain([%r,%r]).range([%r,%r])\nprint(s(%r), s(%r))"
            % (case["a"], case["b"], case["r0"], case["r1"], case["a"], case["b"]))
