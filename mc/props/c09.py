"""C09 - the SVG and TikZ back-ends draw the same picture (differential)."""
import copy
import datetime as _dt

from mc import draw, drawcases as dc, uni
from mc.core import Acc, Hang

ID = "C09"
RULE = ("E-INPUT: the C07 datasets (<= 2 data quick, <= 3 thorough; numeric and datetime kinds) x 4 directions x domain "
        "{derived, explicit} x 5 engine option sets x 2 size/padding/margin sets (plus box sizes with many significant digits, and axes of ~2000, ~40000 and ~3,000,000 units with explicit domains), each with one of 15 colour/border/tick-cross/dot-radius/canvas/latex "
        "variants (3-digit hex, 6-digit hex, short colour lists that wrap around, functions of the datum, for dot/link/label "
        "background/label text/border colour, one at a time and all together) assigned in rotation so every variant meets every "
        "configuration. Two timelines from deep-copied data and separately built equal scales; SVG and TikZ exports parsed and "
        "compared field by field. Non-trivial: >= 2 layers or >= 2 distinct colours in the picture.")
ASSUMPTIONS = ["margin scopes are not compared (documented TikZ limitation)",
               "box and tick origins are compared to within the 1-unit truncation both back-ends apply"]
REQUIRED_COUNTERS = ("pairs", "multi_layer", "multi_colour", "with_border", "fractional_width_pairs", "long_axis_pairs")

FN = {
    "fn-text": lambda d: "#f00" if d.get("text") else "#00f",
    "fn-width": lambda d: "#0A0B0C" if d.get("width", 0) > 30 else "#fe9",
}
VARIANTS = [
    {},
    {"dotColor": "#abc"},
    {"linkColor": "#A1b2C3", "showBorder": True},
    {"labelBgColor": ["#f00", "#00ff00"], "labelTextColor": "#123"},
    {"dotColor": ["#111", "#222222", "#333"], "linkColor": ["#f0f", "#0ff"]},
    {"labelTextColor": "fn-text", "borderColor": "#0f0", "showBorder": True},
    {"dotColor": "fn-width", "linkColor": "fn-text", "labelBgColor": "fn-width", "latex": {"tickCross": True}},
    {"borderColor": ["#abcdef", "#fed"], "showBorder": True, "latex": {"tickCross": True}},
    {"dotColor": ["#9a9", "#FFF"], "linkColor": "fn-width", "labelBgColor": ["#321", "#654", "#987"], "labelTextColor": ["#fff", "#eee"],
     "borderColor": "fn-text", "showBorder": True},
    {"dotColor": "abc", "linkColor": "A1B2C3"},
    {"dotRadius": 1.75, "labelBgColor": "#0a0"},
    {"dotRadius": 2.2, "layerGap": 23.4},
    {"initialWidth": 52, "initialHeight": 49, "margin": {"left": 20, "right": 20, "top": 20, "bottom": 20}},  # ticks < 1 unit apart
    {"latex": {"fontsize": "10pt"}, "labelBgColor": ["#111", "#eee", "#777"], "dotColor": ["#f00", "#0f0", "#00f"]},
    {"latex": {"fontsize": "12pt", "linkThickness": "thin"}, "showBorder": True, "borderColor": ["#135", "#246"]},
]


def bounds(tier, seed):
    return {"max_data": 2 if tier == "quick" else 3, "variants": len(VARIANTS), "configs": 64}


def resolve(variant):
    out = {}
    for k, v in variant.items():
        out[k] = FN[v] if isinstance(v, str) and v in FN else copy.deepcopy(v)
    return out


def configs():
    out = []
    for direction in dc.DIRECTIONS:
        for domain in (False, True):
            for ei in range(len(dc.ENGINE)):
                for si in range(dc.N_BASE_SIZES):
                    out.append((direction, domain, ei, si, True))
    return out


def compare(S, T, direction):
    if tuple(S["axis"]) != tuple(T["axis"]):
        return "C09:axis", "axis SVG %r, TikZ %r" % (S["axis"], T["axis"])
    if S["main"] != T["main"]:
        return "C09:main-shift", "main layer shift SVG %r, TikZ %r" % (S["main"], T["main"])
    for name in ("boxes", "links", "dots", "ticks"):
        if len(S[name]) != len(T[name]):
            return "C09:count-" + name, "%d %s in SVG, %d in TikZ" % (len(S[name]), name, len(T[name]))
    for j, (a, b) in enumerate(zip(S["boxes"], T["boxes"])):
        if a["origin"] != b["origin"]:
            return "C09:box-origin", "box %d origin SVG %r, TikZ %r" % (j, a["origin"], b["origin"])
        if (a["w"], a["h"]) != (b["w"], b["h"]):
            return "C09:box-size", "box %d size SVG %r, TikZ %r" % (j, (a["w"], a["h"]), (b["w"], b["h"]))
        for f in ("fill", "border", "text_fill"):
            if a[f] != b[f]:
                return "C09:colour-" + f, "box %d %s SVG %r, TikZ %r" % (j, f, a[f], b[f])
        ta = a["text"]
        tb = b["text"]
        if (ta is None) != (tb is None):
            return "C09:text", "box %d text SVG %r, TikZ %r" % (j, ta, tb)
        if ta is not None:
            try:
                back = uni.readback(tb)[0]
            except uni.Unbalanced:
                return "C09:text", "box %d TikZ text %r is not well-formed" % (j, tb)
            if uni.nfd(back) != uni.nfd(ta):
                return "C09:text", "box %d text SVG %r, TikZ %r" % (j, ta, tb)
    for j, (a, b) in enumerate(zip(S["links"], T["links"])):
        if a["stroke"] != b["stroke"]:
            return "C09:colour-link", "link %d stroke SVG %r, TikZ %r" % (j, a["stroke"], b["stroke"])
        if [s[0] for s in a["segs"]] != [s[0] for s in b["segs"]]:
            return "C09:link-shape", "link %d segments SVG %r, TikZ %r" % (j, [s[0] for s in a["segs"]], [s[0] for s in b["segs"]])
        for sa, sb in zip(a["segs"], b["segs"]):
            if any(abs(x - y) > 1e-8 for x, y in zip(sa[1], sb[1])):
                return "C09:link-points", "link %d segment %s SVG %r, TikZ %r" % (j, sa[0], sa[1], sb[1])
    for j, (a, b) in enumerate(zip(S["dots"], T["dots"])):
        if abs(a["pos"][0] - b["pos"][0]) > 1e-6 or abs(a["pos"][1] - b["pos"][1]) > 1e-6:
            return "C09:dot", "dot %d SVG %r, TikZ %r" % (j, a["pos"], b["pos"])
        if a["fill"] != b["fill"]:
            return "C09:colour-dot", "dot %d fill SVG %r, TikZ %r" % (j, a["fill"], b["fill"])
        if a["r"] != b["r"]:
            return "C09:dot-radius", "dot %d radius SVG %r, TikZ %r" % (j, a["r"], b["r"])
    for j, (a, b) in enumerate(zip(S["ticks"], T["ticks"])):
        if a["text"] != b["text"]:
            return "C09:tick-text", "tick %d text SVG %r, TikZ %r" % (j, a["text"], b["text"])
        for c in (0, 1):
            if abs(a["pos"][c] - b["pos"][c]) >= 1 or abs(b["pos"][c]) > abs(a["pos"][c]) + 1e-9:
                return "C09:tick-position", "tick %d SVG %r, TikZ %r" % (j, a["pos"], b["pos"])
    return None


def judge(case, acc=None):
    kind = case["kind"]
    data = [dict(d) for d in case["data"]]
    direction, domain, ei, si, ticks = case["cfg"]
    if not domain and len({draw.as_number(draw.to_instant(d["time"])) for d in data}) < 2:
        return "SKIP", "degenerate"
    recs = {}
    for backend in ("svg", "tex"):
        opts = dc.build_options(kind, direction, domain, dc.ENGINE[ei], dc.SIZES[si], ticks, resolve(VARIANTS[case["variant"]]))
        try:
            doc, tl, R = dc.run_export(backend, data, opts)
        except Hang:
            return "HANG", "%s export did not return" % backend
        except draw.ParseError as e:
            return "C09:parse-" + backend, "%s export does not parse: %s" % (backend, e)
        except Exception as e:
            return "EXC:%s:%s" % (backend, type(e).__name__), "%s export raised %r" % (backend, e)
        recs[backend] = R
    if acc is not None:
        acc.counters["pairs"] += 1
        S = recs["svg"]
        nl, _ = dc.classify(S, direction, None)
        ncol = len({b["fill"] for b in S["boxes"]} | {d["fill"] for d in S["dots"]} | {l["stroke"] for l in S["links"]})
        if nl > 1:
            acc.counters["multi_layer"] += 1
        if ncol > 1:
            acc.counters["multi_colour"] += 1
        if nl > 1 or ncol > 1:
            acc.nontriv += 1
        if any(b["border"] for b in S["boxes"]):
            acc.counters["with_border"] += 1
    return compare(recs["svg"], recs["tex"], direction)


def plan(tier, seed):
    nmax = 2 if tier == "quick" else 3
    n = 24 if tier == "quick" else 96
    return [{"kind": k, "nmax": nmax, "mod": n, "rem": r, "seed": seed} for k in ("lin", "time") for r in range(n)]


def run_shard(shard):
    acc = Acc()
    cfgs = configs()
    alpha = dc.letters(shard["kind"])
    case = None
    for di, seq in enumerate(dc.sequences(alpha, shard["nmax"])):
        if di % shard["mod"] != shard["rem"]:
            continue
        data = [dc.datum(l) for l in seq]
        acc.states += 1
        for ci, cfg in enumerate(cfgs):
            case = {"kind": shard["kind"], "data": data, "cfg": list(cfg), "variant": (di + ci + shard["seed"]) % len(VARIANTS)}
            bad = judge(case, acc)
            acc.evals += 2
            acc.trans += 2
            if bad and bad[0] == "SKIP":
                acc.counters["skipped_degenerate"] += 1
            elif bad:
                acc.violation(case, bad[0], bad[1], order=(len(data), di, ci))
    if shard["rem"] == 0:  # box sizes that need more than six significant digits
        for di, ws in enumerate(((100 / 3, 116.2265625), (1047.5625, 20), (33.333333333333336, 55, 7.1))):
            times = dc.LIN_TIMES if shard["kind"] == "lin" else dc.DT_TIMES
            data = [dc.datum((times[(2 * i) % len(times)], w, "ab" if i % 2 else None)) for i, w in enumerate(ws)]
            for ci, cfg in enumerate(cfgs):
                case = {"kind": shard["kind"], "data": data, "cfg": list(cfg), "variant": (di + ci) % len(VARIANTS)}
                bad = judge(case, acc)
                acc.evals += 2
                acc.trans += 2
                acc.counters["fractional_width_pairs"] += 1
                if bad and bad[0] != "SKIP":
                    acc.violation(case, bad[0], bad[1], order=(9, di, ci))
    if shard["rem"] == 1:  # long axes: ~2000 and ~40000 units, explicit domains
        for li, (si, direction, dom, data) in enumerate(dc.long_axis_cases(shard["kind"])):
            case = {"kind": shard["kind"], "data": data, "cfg": [direction, dom, 1 if li % 2 else 0, si, True], "variant": li % len(VARIANTS)}
            bad = judge(case, acc)
            acc.evals += 2
            acc.trans += 2
            acc.counters["long_axis_pairs"] += 1
            if bad and bad[0] != "SKIP":
                acc.violation(case, bad[0], bad[1], order=(10, li, 0))
    if case:
        acc.sample(case)
    return acc


def replay(case):
    bad = judge(case)
    return None if bad is None or bad[0] == "SKIP" else bad


def snippet(case):
    return "# data=%r cfg=%r colour variant=%r\n# export with TimelineSVG and TimelineTex and diff the geometry" % (
        case["data"], case["cfg"], VARIANTS[case["variant"]])
