"""C16 - time ticks never fail, increase, stay in the domain, sit on calendar boundaries."""
from datetime import datetime, timedelta

from mc import cal, timegrid
from mc.core import Acc, Hang, horizon

ID = "C16"
RULE = ("E-INPUT: start instants (days 27-31/1-2 around every month end and every Sunday of 2019-2020 x 2 times of day, 4 early "
        "instants from 1900-1950, a seeded instant; thorough: every day 2019-2022 x 3 times of day) x a 42-rung span ladder "
        "1 ms..250 y (incl. 7,8,9 ms and 28-31 d) x counts (quick {2,3,5,10,17,50}; thorough 2..50) x both orientations, "
        "through the real TimeScale().domain(..).ticks(m); spans that are count x (an entry of the 18-entry tick-interval table) exactly and 1 ms beside; plus scale/copy histories (domain, [ticks], copy, re-domain the copy, ticks on both) over 4 starts x span pairs of different magnitude, compared with fresh scales; zoom histories (ONE scale given every span of the ladder in turn, 30-60 domain() calls, ticks after each, against fresh scales); on every sixth start a plain request judged right after a two-argument request ticks(m, step) on another scale of the same span, or after ticks(m) on a scale constructed with its own tick-method table. Oracle: no exception, strictly increasing, in-domain, calendar class "
        "from the smallest gap (R-CAL), gap ratio <= 2, count bounds. Non-trivial: >= 2 ticks; separately counted: domains "
        "crossing a 29th-31st, sub-second steps.")
ASSUMPTIONS = ["TZ=UTC in this check; zone independence is C18", "degenerate (zero-span) domains are outside the property"]
REQUIRED_COUNTERS = ("copy_histories", "zoom_histories", "plain_requests_after_step_form", "spans_on_table_multiples", "tick_lists", "subsecond", "class_d", "class_mon", "class_y", "class_h", "class_min", "class_s")


def bounds(tier, seed):
    return {"spans_ms": [timegrid.SPANS_MS[0], timegrid.SPANS_MS[-1]], "rungs": len(timegrid.SPANS_MS),
            "counts": [2, 3, 5, 10, 17, 50] if tier == "quick" else "2..50",
            "starts": "month-end/Sunday days 2019-2020 x 2 tods + early + seeded" if tier == "quick" else "every day 2019-2022 x 3 tods"}


def cls(g):
    if g < 1:
        return "ms"
    if g < 60:
        return "s"
    if g < 3600:
        return "min"
    if g < 86400:
        return "h"
    if g < 28 * 86400:
        return "d"
    if g < 365 * 86400:
        return "mon"
    return "y"


CLASS_UNIT = {"s": "second", "min": "minute", "h": "hour", "d": "day", "mon": "month", "y": "year"}


def judge(st, sp, m, rev, acc=None):
    from labella.scale import TimeScale
    en = st + timedelta(milliseconds=sp)
    dom = [en, st] if rev else [st, en]
    try:
        with horizon(10.0):
            tk = TimeScale().domain(dom).ticks(m)
            tk = list(tk)
    except Hang:
        return "HANG", "ticks(%d) on %s .. %s did not return" % (m, st, en)
    except Exception as e:
        return "EXC:" + type(e).__name__, "ticks(%d) on [%s, %s] raised %r" % (m, dom[0], dom[1], e)
    if not all(isinstance(t, datetime) for t in tk):
        return "C16:not-instants", "ticks returned non-datetime values %r" % (tk[:3],)
    if any(not y > x for x, y in zip(tk, tk[1:])):
        return "C16:not-increasing", "ticks(%d) on [%s, %s]: %s" % (m, dom[0], dom[1], [str(x) for x in tk[:5]])
    gaps = [(y - x).total_seconds() for x, y in zip(tk, tk[1:])]
    slack = cal.MS if (gaps and min(gaps) < 1) or sp < 1000 * m else timedelta(0)
    if tk and (tk[0] < st - slack or tk[-1] > en + slack):
        return ("C16:outside-domain", "ticks(%d) on [%s, %s]: first %s last %s" % (m, dom[0], dom[1], tk[0], tk[-1]))
    if acc is not None:
        acc.counters["tick_lists"] += 1
        acc.outcome(len(tk))
    if len(tk) >= 2:
        c = cls(min(gaps))
        if acc is not None:
            acc.nontriv += 1
            acc.counters["class_" + c] += 1
            if c == "ms":
                acc.counters["subsecond"] += 1
            if any(t.day >= 29 for t in tk) and c == "d":
                acc.counters["day_ticks_on_29_31"] += 1
        if max(gaps) > 2 * min(gaps) + 1e-9:
            return ("C16:uneven", "ticks(%d) on [%s, %s]: gaps from %rs to %rs: %s"
                    % (m, dom[0], dom[1], min(gaps), max(gaps), [str(x) for x in tk[:5]]))
        if c != "ms":
            u = CLASS_UNIT[c]
            for t in tk:
                if not cal.is_boundary(u, t):
                    return ("C16:off-boundary", "ticks(%d) on [%s, %s]: spacing class %s but tick %s is not on a %s boundary"
                            % (m, dom[0], dom[1], c, t, u))
    if sp >= m:
        if not (m / 2.4 - 1 <= len(tk) <= 2.4 * m + 1):
            return ("C16:count", "ticks(%d) on [%s, %s] returned %d ticks" % (m, dom[0], dom[1], len(tk)))
    else:
        if not (sp <= len(tk) <= sp + 1) or any(g != 0.001 for g in gaps):
            return ("C16:count-ms", "span %r ms < m=%d: expected one tick per millisecond, got %s"
                    % (sp, m, [str(x) for x in tk[:5]]))
    return None


TABLE_STEPS_MS = [1e3, 5e3, 15e3, 3e4, 6e4, 3e5, 9e5, 18e5, 36e5, 108e5, 216e5, 432e5, 864e5, 1728e5, 6048e5, 2592e6, 7776e6, 31536e6]


def judge_after_step_form(st, sp, m, rev, step, acc=None):
    """Some scale in the process is asked for ticks with the optional second argument (ticks(count, step), d3's
    signature); afterwards a plain ticks(m) request on a fresh scale is judged as always."""
    from labella.scale import TimeScale
    en = st + timedelta(milliseconds=sp)
    try:
        with horizon(10.0):
            if step == "custom-table":
                # a scale constructed with its own tick-method table (constructor argument `methods`): every row steps by 1
                import labella.scale as S
                other = TimeScale(methods=[[row[0], 1] for row in S.d3_time_scaleLocalMethods])
                list(other.domain([st, en]).ticks(m))
            else:
                list(TimeScale().domain([st, en]).ticks(m, step))
    except Exception:
        pass  # what the other scale returns or raises is outside the property
    if acc is not None:
        acc.counters["plain_requests_after_step_form"] += 1
    bad = judge(st, sp, m, rev, acc)
    if bad:
        from mc.core import purge_labella
        purge_labella()  # module state may be damaged: the cases that follow start from a re-imported library
        return bad[0] + ":after-step-form", "after ticks(%d, %r) on some scale: %s" % (m, step, bad[1])
    return None


def judge_copy_history(dA, dB, m, order, acc=None):
    """a.domain(A); b = a.copy(); b.domain(B); then ticks(m) on both (in either order): each must equal the ticks of a
    fresh scale with the same domain (ticks depend on the domain and the count only)."""
    from labella.scale import TimeScale
    try:
        with horizon(20.0):
            a = TimeScale().domain(list(dA))
            if order[0] == "t":  # ticks before the copy is taken
                a.ticks(m)
            b = a.copy()
            b.domain(list(dB))
            first, second = (a, b) if order[1] == "a" else (b, a)
            got = {id(first): first.ticks(m)}
            got[id(second)] = second.ticks(m)
            want_a = TimeScale().domain(list(dA)).ticks(m)
            want_b = TimeScale().domain(list(dB)).ticks(m)
    except Hang:
        return "HANG", "copy history did not return"
    except Exception as e:
        return "EXC:" + type(e).__name__, "copy history on %r / %r raised %r" % (dA, dB, e)
    if acc is not None:
        acc.counters["copy_histories"] += 1
    if list(got[id(a)]) != list(want_a):
        return ("C16:copy-history", "a.domain(%s..%s); b=a.copy(); b.domain(%s..%s): a.ticks(%d) = %s..., a fresh scale gives %s..."
                % (dA[0], dA[1], dB[0], dB[1], m, [str(x) for x in got[id(a)][:3]], [str(x) for x in want_a[:3]]))
    if list(got[id(b)]) != list(want_b):
        return ("C16:copy-history", "a.domain(%s..%s); b=a.copy(); b.domain(%s..%s): b.ticks(%d) = %s..., a fresh scale gives %s..."
                % (dA[0], dA[1], dB[0], dB[1], m, [str(x) for x in got[id(b)][:3]], [str(x) for x in want_b[:3]]))
    return None


def starts_for(shard):
    if shard["kind"] == "grid":
        out = []
        for d in timegrid.month_end_days((2019, 2020)):
            out += [d, d + timegrid.TOD1]
        out += timegrid.EARLY + [timegrid.seeded_start(shard["seed"])]
        return out
    out = []
    for d in timegrid.all_days(shard["y0"], shard["y1"]):
        out += [d, d + timegrid.TOD1, d + timegrid.TOD2]
    return out


def plan(tier, seed):
    hist = [{"kind": "copyhist", "mod": 8, "rem": r} for r in range(8)] + [{"kind": "zoomhist"}]
    if tier == "quick":
        return [{"kind": "grid", "seed": seed, "mod": 32, "rem": r, "counts": [2, 3, 5, 10, 17, 50]} for r in range(32)] + hist
    shards = hist + [{"kind": "grid", "seed": seed, "mod": 16, "rem": r, "counts": list(range(2, 51))} for r in range(16)]
    for y in (2019, 2020, 2021, 2022):
        for r in range(24):
            shards.append({"kind": "days", "y0": y, "y1": y, "mod": 24, "rem": r,
                           "counts": [2, 3, 4, 5, 7, 10, 13, 17, 24, 31, 38, 50]})
    return shards


def judge_zoom_history(st, spans, m, interleave, acc=None):
    """ONE live scale is given one domain after the other (a zoom through the whole span ladder); after every domain() its
    ticks(m) must equal those of a fresh scale with that domain.  interleave: the fresh scales are built between the calls
    on the live scale (True) or only after the whole walk (False)."""
    from labella.scale import TimeScale
    doms = [[st, st + timedelta(milliseconds=sp)] for sp in spans if (st + timedelta(milliseconds=sp)).year <= 2200]
    try:
        with horizon(60.0):
            s = TimeScale()
            got, want = [], []
            for d in doms:
                s.domain(list(d))
                got.append(list(s.ticks(m)))
                if interleave:
                    want.append(list(TimeScale().domain(list(d)).ticks(m)))
            if not interleave:
                want = [list(TimeScale().domain(list(d)).ticks(m)) for d in doms]
    except Hang:
        return "HANG", "zoom history from %s did not return" % (st,)
    except Exception as e:
        return "EXC:" + type(e).__name__, "zoom history from %s (%d domains) raised %r" % (st, len(doms), e)
    if acc is not None:
        acc.counters["zoom_histories"] += 1
        acc.counters["zoom_history_domains"] += len(doms)
    for k, d in enumerate(doms):
        if got[k] != want[k]:
            return ("C16:zoom-history", "one scale given %d domains in turn: after domain #%d (%s..%s) ticks(%d) = %s... (%d ticks), a fresh "
                    "scale gives %s... (%d ticks)" % (len(doms), k + 1, d[0], d[1], m, [str(x) for x in got[k][:3]], len(got[k]),
                                                     [str(x) for x in want[k][:3]], len(want[k])))
    return None


def run_shard(shard):
    acc = Acc()
    if shard["kind"] == "zoomhist":
        sts = timegrid.EARLY[:2] + [datetime(2020, 1, 31, 13, 30), datetime(2020, 2, 29)]
        ladder = list(timegrid.SPANS_MS)
        for st in sts:
            for spans, name in ((ladder, "out"), (ladder[::-1], "in"), (ladder[::2] + ladder[::-2], "out-in")):
                for m in (5, 10):
                    for inter in (True, False):
                        bad = judge_zoom_history(st, spans, m, inter, acc)
                        acc.states += 1
                        acc.evals += len(spans)
                        acc.trans += len(spans)
                        case = {"hist": "zoom", "start": st, "spans": spans, "m": m, "interleave": inter}
                        if bad:
                            acc.violation(case, bad[0], bad[1], order=(10 ** 13 + 1, 0, m))
        acc.sample(case)
        return acc
    if shard["kind"] == "copyhist":
        spans = timegrid.SPANS_MS[9::3]
        sts = timegrid.EARLY[:2] + [datetime(2020, 1, 31, 13, 30), datetime(2020, 2, 29)]
        k = 0
        for st in sts:
            for spA in spans:
                for spB in spans:
                    if spA == spB:
                        continue
                    k += 1
                    if k % shard["mod"] != shard["rem"]:
                        continue
                    dA = [st, st + timedelta(milliseconds=spA)]
                    dB = [st + timedelta(days=3), st + timedelta(days=3, milliseconds=spB)]
                    if dB[1].year > 2200 or dA[1].year > 2200:
                        continue
                    acc.states += 1
                    for m in (5, 10):
                        for order in ("-a", "-b", "ta", "tb"):
                            bad = judge_copy_history(dA, dB, m, order, acc)
                            acc.evals += 1
                            acc.trans += 1
                            if bad:
                                acc.violation({"hist": "copy", "dA": dA, "dB": dB, "m": m, "order": order}, bad[0], bad[1],
                                              order=(10 ** 13, k, m))
        acc.sample({"hist": "copy", "dA": dA, "dB": dB, "m": 10, "order": "ta"})
        return acc
    for si, st in enumerate(starts_for(shard)):
        if si % shard["mod"] != shard["rem"]:
            continue
        for sp in timegrid.SPANS_MS:
            en = st + timedelta(milliseconds=sp)
            if en.year > 2200:
                continue
            acc.states += 1
            for m in shard["counts"]:
                for rev in (False, True):
                    bad = judge(st, sp, m, rev, acc)
                    acc.evals += 1
                    acc.trans += 1
                    if bad:
                        acc.violation({"start": st, "span_ms": sp, "m": m, "rev": rev}, bad[0], bad[1],
                                      order=(sp, m, int(rev), cal.ms_of(st)))
        # spans that are exact multiples of an entry of the tick-interval table (and 1 ms beside them): span / count
        # meets the table value exactly, where the choice of the interval is a comparison against that value
        for step in TABLE_STEPS_MS:
            for m in shard["counts"][:6]:
                for d in (-1, 0, 1):
                    sp = m * step + d
                    if (st + timedelta(milliseconds=sp)).year > 2200:
                        continue
                    bad = judge(st, sp, m, bool(d == 0 and m % 2), acc)
                    acc.evals += 1
                    acc.trans += 1
                    acc.counters["spans_on_table_multiples"] += 1
                    if bad:
                        acc.violation({"start": st, "span_ms": sp, "m": m, "rev": bool(d == 0 and m % 2)}, bad[0], bad[1],
                                      order=(sp, m, 0, cal.ms_of(st)))
        for sp in timegrid.SPANS_MS:
            en = st + timedelta(milliseconds=sp)
            if en.year > 2200:
                continue
            if (si // shard["mod"]) % 6 == 0:  # every sixth start: a two-argument request first, then the plain one
                for m, step in ((7, 2), (23, 50), (51, "custom-table")):  # a count no plain request in this check uses
                    bad = judge_after_step_form(st, sp, m, False, step, acc)
                    acc.evals += 1
                    acc.trans += 1
                    if bad:
                        acc.violation({"start": st, "span_ms": sp, "m": m, "rev": False, "pre_step": step}, bad[0], bad[1],
                                      order=(sp, m, 2, cal.ms_of(st)))
    acc.sample({"start": st, "span_ms": sp, "m": m, "rev": rev})
    return acc


def replay(case):
    if case.get("hist") == "copy":
        return judge_copy_history(case["dA"], case["dB"], case["m"], case["order"])
    if case.get("hist") == "zoom":
        return judge_zoom_history(case["start"], case["spans"], case["m"], case["interleave"])
    if case.get("pre_step"):
        return judge_after_step_form(case["start"], case["span_ms"], case["m"], case["rev"], case["pre_step"])
    return judge(case["start"], case["span_ms"], case["m"], case["rev"])


def snippet(case):
    if case.get("hist") == "copy":
        return ("import datetime\nfrom labella.scale import TimeScale\na=TimeScale().domain(%r); b=a.copy(); b.domain(%r)\n"
                "print(a.ticks(%d)[:3], b.ticks(%d)[:3])" % (case["dA"], case["dB"], case["m"], case["m"]))
    en = case["start"] + timedelta(milliseconds=case["span_ms"])
    dom = [en, case["start"]] if case["rev"] else [case["start"], en]
    return ("import datetime\nfrom labella.scale import TimeScale\nprint(TimeScale().domain(%r).ticks(%d))" % (dom, case["m"]))
