"""C02 - see mc/layout.py (shared exploration of Force.compute)."""
from mc import layout

ID = "C02"
RULE = layout.RULES[ID]
REQUIRED_COUNTERS = layout.REQUIRED[ID]
ASSUMPTIONS = ["positions/widths outside the enumerated grids are not covered",
               "clusters larger than the multiset bound only along the arithmetic-progression families (thorough)"]


def plan(tier, seed):
    return layout.plan_layout(tier, seed)


def run_shard(shard):
    return layout.run_layout_shard(ID, shard)


def replay(case):
    return layout.replay_layout(ID, case)


def snippet(case):
    return layout.snippet_layout(case)


def bounds(tier, seed):
    return layout.bounds(tier, seed)
