"""C17 - calendar intervals round instants correctly.  E-FULL over days + E-INPUT ranges."""
from datetime import datetime, timedelta

from mc import cal
from mc.core import Acc, Hang, horizon

ID = "C17"
RULE = ("E-FULL: every day of the tier's year set (quick: 1900, 1999-2004, 2100, 2200; thorough: every day 1900-2200) at 3 "
        "instants x 7 units x floor/ceil/round/offset(k in {0,1,2,7,31,400}); every hour of 2000, 2021, 2100 (thorough: 10 years incl. 1900, 1969, 1970, 2038, 2200) for "
        "second/minute/hour; thorough: every k in 0..400 from each day of 12 years (1900 ... 2199). E-INPUT: range(t0,t1,dt) "
        "for start instants around every month end/week boundary of 2019-2020 x 6 spans x dt 1..12, 13, 18, 25, 30, 36, 53, 61 x 7 units (for dt 1 and 5 also through the plural aliases d3_time['days'] ...); steps 100..3600 over four cycles of the step; floor/ceil/round/range on every day of one year under three process-wide settings (calendar.setfirstweekday, a 4-digit decimal context, DEBUG logging); enumerations of more than 10^5 seconds / minutes / hours with steps 7 and 12 (thorough: 1, 5, 7..12); thorough: three enumerations of more than 10^6 boundaries. Oracle R-CAL "
        "(datetime/timedelta/calendar). Non-trivial: the instant is not itself a boundary / the range is non-empty.")
ASSUMPTIONS = ["for the week unit with dt>1 only numbering-agnostic periodicity inside a year is demanded (the statement does not fix a week numbering)",
               "process time zone is UTC here; C18 owns the zone dimension"]
REQUIRED_COUNTERS = ("point_ops", "range_ops", "month_end_days", "leap_days", "range_ops_with_step_100_or_more", "ops_under_ambient_setting")

TODS = (timedelta(0), timedelta(hours=13, minutes=30, seconds=15, milliseconds=250),
        timedelta(hours=23, minutes=59, seconds=59, milliseconds=999))
KS = (0, 1, 2, 7, 31, 400)
NOMINAL = {"second": timedelta(seconds=1), "minute": timedelta(minutes=1), "hour": timedelta(hours=1),
           "day": timedelta(days=1), "week": timedelta(days=7), "month": timedelta(days=30), "year": timedelta(days=365)}
SPANS = (0, 1, 2.5, 13, 40, 130)
DTS = tuple(range(1, 13)) + (13, 18, 25, 30, 36, 53, 61)  # also steps larger than one cycle of the unit number


BIG_DTS = (100, 110, 120, 144, 150, 180, 240, 365, 3600)
AMBIENT = ("calendar-firstweekday", "decimal-context", "debug-logging")


def bounds(tier, seed):
    return {"years": "1900,1999-2004,2100,2200 (+seeded year)" if tier == "quick" else "1900-2200 complete",
            "instants_per_day": 3, "units": list(cal.UNITS), "offsets": list(KS),
            "ranges": "starts around month ends/week boundaries 2019-2020 x spans %r units x dt 1..12" % (SPANS,)}


def start_instants(years=(2019, 2020)):
    out = []
    day = datetime(years[0], 1, 1)
    end = datetime(years[-1] + 1, 1, 1)
    while day < end:
        if day.day >= 27 or day.day <= 2 or day.isoweekday() in (6, 7):
            out.append(day)
            out.append(day + TODS[1])
        day += timedelta(days=1)
    return out


def plan(tier, seed):
    shards = []
    if tier == "quick":
        years = [1900, 1999, 2000, 2001, 2002, 2003, 2004, 2100, 2200, 1901 + (seed * 7) % 290]
        for y in years:
            shards.append({"kind": "days", "y0": y, "y1": y})
    else:
        for y in range(1900, 2201, 4):
            shards.append({"kind": "days", "y0": y, "y1": min(2200, y + 3)})
        for y in (1900, 1904, 1969, 1970, 1999, 2000, 2001, 2038, 2099, 2100, 2101, 2199):
            for half in (0, 1):
                shards.append({"kind": "allk", "y": y, "half": half})
    for y in ((2000, 2021, 2100) if tier == "quick" else (1900, 1969, 1970, 2000, 2004, 2021, 2038, 2100, 2199, 2200)):
        for q in range(4):
            shards.append({"kind": "hours", "y": y, "q": q})
    n = 16
    for r in range(n):
        shards.append({"kind": "ranges", "mod": n, "rem": r})
    for u in cal.UNITS:  # steps of 100 and more (several cycles of the unit number)
        shards.append({"kind": "bigstep", "unit": u})
    for k in AMBIENT:  # the same operations under process-wide settings an application may have chosen
        shards.append({"kind": "ambient", "setting": k, "year": 2024 if tier == "quick" else 2000 + seed % 30})
    # enumerations of more than 10^5 units with steps that do and do not divide the unit's cycle (60 / 60 / 24)
    for u, days in (("second", 2), ("minute", 80), ("hour", 4400)):
        for dt in ((7, 12) if tier == "quick" else (1, 5, 7, 8, 9, 10, 11, 12)):
            shards.append({"kind": "long", "unit": u, "days": days, "dt": dt})
    if tier == "thorough":  # one enumeration of more than a million boundaries per fine unit
        shards.append({"kind": "long", "unit": "second", "days": 13, "dt": 1})
        shards.append({"kind": "long", "unit": "second", "days": 25, "dt": 2})
        shards.append({"kind": "long", "unit": "minute", "days": 800, "dt": 1})
    return shards


def point_case(iv, u, op, t, k=None):
    """-> (key, reason) | None"""
    try:
        with horizon(5.0):
            if op == "floor":
                got, exp = iv.floor(t), cal.floor(u, t)
            elif op == "ceil":
                got, exp = iv.ceil(t), cal.ceil(u, t)
            elif op == "round":
                got, exp = iv.round(t), cal.round_(u, t)
            else:
                b = cal.floor(u, t)
                got, exp = iv.offset(b, k), cal.step(u, b, k)
    except Hang:
        return "HANG:%s.%s" % (u, op), "%s.%s(%s) did not return" % (u, op, t)
    except Exception as e:
        return ("EXC:%s.%s:%s" % (u, op, type(e).__name__),
                "%s.%s(%s%s) raised %r" % (u, op, t, "" if k is None else ", %d" % k, e))
    if got != exp:
        return ("C17:%s.%s" % (u, op), "%s.%s(%s%s) = %s, calendar says %s"
                % (u, op, t, "" if k is None else ", %d" % k, got, exp))
    return None


def range_case(iv, u, t0, t1, dt, plural=None):
    try:
        with horizon(120.0):
            got = iv.range(t0, t1, dt)
            if plural is not None:  # d3_time["days"] etc. are the same enumeration under another name
                alias = plural(t0, t1, dt)
                if list(alias) != list(got):
                    return ("C17:%s.plural" % u, "d3_time[%r](%s, %s, %d) = %s..., the interval's range gives %s..."
                            % (u + "s", t0, t1, dt, [str(x) for x in list(alias)[:3]], [str(x) for x in list(got)[:3]]))
    except Hang:
        return "HANG:%s.range" % u, "%s.range(%s, %s, %d) did not return" % (u, t0, t1, dt)
    except Exception as e:
        return "EXC:%s.range:%s" % (u, type(e).__name__), "%s.range(%s, %s, %d) raised %r" % (u, t0, t1, dt, e)
    got = list(got)
    # the result belongs to the caller: editing it must not change what the next identical call returns
    try:
        first = iv.range(t0, t1, dt)
        first.reverse()
        first.append(None)
        again = list(iv.range(t0, t1, dt))
    except Exception as e:
        return "EXC:%s.range:%s" % (u, type(e).__name__), "second %s.range(%s, %s, %d) raised %r" % (u, t0, t1, dt, e)
    if again != got:
        return ("C17:%s.range-shared-result" % u, "%s.range(%s, %s, %d) returns %s... after the caller edited the list returned by "
                "the previous identical call (before: %s...)" % (u, t0, t1, dt, [str(x) for x in again[:3]], [str(x) for x in got[:3]]))
    allb = cal.boundaries(u, t0, t1)
    if u != "week" or dt == 1:
        exp = [b for b in allb if dt == 1 or cal.number(u, b) % dt == 0]
        if got != exp:
            return ("C17:%s.range" % u, "%s.range(%s, %s, %d) = %s..., calendar says %s..."
                    % (u, t0, t1, dt, [str(x) for x in got[:4]], [str(x) for x in exp[:4]]))
        return None
    # week, dt > 1: a subset of the Sunday boundaries, increasing, every dt-th inside a year
    if any(b not in allb for b in got) or any(not b > a for a, b in zip(got, got[1:])):
        return ("C17:week.range", "week.range(%s, %s, %d) = %s... is not an increasing subset of the Sundays in range"
                % (t0, t1, dt, [str(x) for x in got[:4]]))
    for a, b in zip(got, got[1:]):
        if a.year == b.year and (b - a) != timedelta(weeks=dt):
            return ("C17:week.range", "week.range(%s, %s, %d): consecutive results %s, %s are not %d weeks apart"
                    % (t0, t1, dt, a, b, dt))
    per_year = {}
    for b in allb:
        per_year.setdefault(b.year, []).append(b)
    for y, bs in per_year.items():
        sel = [b for b in bs if b in got]
        if len(bs) >= dt and not sel:
            return ("C17:week.range", "week.range(%s, %s, %d): no Sunday of %d selected although %d are in range"
                    % (t0, t1, dt, y, len(bs)))
        if sel and (bs.index(sel[0]) >= dt or len(bs) - 1 - bs.index(sel[-1]) >= dt):
            return ("C17:week.range", "week.range(%s, %s, %d): selection inside %d is not every %d-th Sunday"
                    % (t0, t1, dt, y, dt))
    return None


def run_shard(shard):
    from labella.d3_time import d3_time
    acc = Acc()
    kind = shard["kind"]

    def do_point(u, op, t, k=None):
        acc.evals += 1
        acc.trans += 1
        acc.counters["point_ops"] += 1
        bad = point_case(d3_time[u], u, op, t, k)
        if bad:
            acc.violation({"op": op, "unit": u, "t": t, "k": k}, bad[0], bad[1],
                          order=(0, cal.UNITS.index(u), k or 0, cal.ms_of(t)))

    if kind in ("days", "allk"):
        if kind == "days":
            day, end = datetime(shard["y0"], 1, 1), datetime(shard["y1"], 12, 31)
        else:
            day, end = (datetime(shard["y"], 1, 1), datetime(shard["y"], 6, 30)) if shard["half"] == 0 else \
                       (datetime(shard["y"], 7, 1), datetime(shard["y"], 12, 31))
        while day <= end:
            acc.states += 1
            if day.day >= 28:
                acc.counters["month_end_days"] += 1
            if day.month == 2 and day.day == 29:
                acc.counters["leap_days"] += 1
            if kind == "allk":
                for u in cal.UNITS:
                    for k in range(0, 401):
                        do_point(u, "offset", day, k)
            else:
                for tod in TODS:
                    t = day + tod
                    if tod:
                        acc.nontriv += 1
                    for u in cal.UNITS:
                        do_point(u, "floor", t)
                        do_point(u, "ceil", t)
                        do_point(u, "round", t)
                        if tod is TODS[1]:
                            for k in KS:
                                do_point(u, "offset", t, k)
            day += timedelta(days=1)
        acc.sample({"op": "ceil", "unit": "day", "t": end + TODS[1]})
    elif kind == "long":
        u = shard["unit"]
        t0 = datetime(2019, 12, 25, 0, 0, 0, 500000)
        t1 = t0 + timedelta(days=shard["days"])
        bad = range_case(d3_time[u], u, t0, t1, shard["dt"])
        acc.evals += 1
        acc.states += 1
        acc.trans += 1
        acc.counters["range_ops"] += 1
        acc.counters["long_ranges"] += 1
        acc.nontriv += 1
        if bad:
            acc.violation({"op": "range", "unit": u, "t0": t0, "t1": t1, "dt": shard["dt"]}, bad[0], bad[1], order=(2, 0, 0, 0))
        acc.sample({"op": "range", "unit": u, "t0": t0, "t1": t1, "dt": shard["dt"]})
    elif kind == "bigstep":
        u = shard["unit"]
        starts = start_instants((2020,))[::9]
        for t0 in starts:
            acc.states += 1
            for dt in BIG_DTS:
                # long enough for four cycles of the step; the year unit is limited by the calendar's last year
                n = 4 * dt + 7 if u != "year" else min(4 * dt + 7, 7900)
                t1 = cal.step(u, cal.floor(u, t0), n)
                acc.evals += 1
                acc.trans += 1
                acc.counters["range_ops"] += 1
                acc.counters["range_ops_with_step_100_or_more"] += 1
                acc.nontriv += 1
                bad = range_case(d3_time[u], u, t0, t1, dt)
                if bad:
                    acc.violation({"op": "range", "unit": u, "t0": t0, "t1": t1, "dt": dt}, bad[0], bad[1],
                                  order=(3, cal.UNITS.index(u), dt, cal.ms_of(t0)))
        acc.sample({"op": "range", "unit": u, "t0": t0, "t1": t1, "dt": dt})
    elif kind == "ambient":
        from mc.ambient import setting
        day, end = datetime(shard["year"], 1, 1), datetime(shard["year"], 12, 31)
        k = 0
        while day <= end:
            acc.states += 1
            t = day + TODS[1]
            with setting(shard["setting"]):
                for u in cal.UNITS:
                    for op in ("floor", "ceil", "round"):
                        bad = point_case(d3_time[u], u, op, t)
                        acc.evals += 1
                        acc.trans += 1
                        acc.counters["ops_under_ambient_setting"] += 1
                        if bad:
                            acc.violation({"op": op, "unit": u, "t": t, "k": None, "ambient": shard["setting"]},
                                          bad[0] + ":" + shard["setting"], bad[1] + " (under " + shard["setting"] + ")",
                                          order=(4, cal.UNITS.index(u), 0, cal.ms_of(t)))
                    if k % 7 == 0:
                        for dt in (1, 2):
                            bad = range_case(d3_time[u], u, t, t + 9 * NOMINAL[u], dt, d3_time.get(u + "s"))
                            acc.evals += 1
                            acc.trans += 1
                            acc.counters["ops_under_ambient_setting"] += 1
                            if bad:
                                acc.violation({"op": "range", "unit": u, "t0": t, "t1": t + 9 * NOMINAL[u], "dt": dt,
                                               "ambient": shard["setting"]}, bad[0] + ":" + shard["setting"],
                                              bad[1] + " (under " + shard["setting"] + ")", order=(4, cal.UNITS.index(u), dt, cal.ms_of(t)))
            k += 1
            day += timedelta(days=1)
        acc.sample({"op": "floor", "unit": "week", "t": end, "k": None, "ambient": shard["setting"]})
    elif kind == "hours":
        y, q = shard["y"], shard["q"]
        t = datetime(y, 1 + 3 * q, 1)
        end = datetime(y + (q == 3), (1 + 3 * (q + 1)) % 12 or 12, 1) if q < 3 else datetime(y + 1, 1, 1)
        while t < end:
            acc.states += 1
            for off in (timedelta(0), timedelta(minutes=30, seconds=15, milliseconds=250),
                        timedelta(minutes=59, seconds=59, milliseconds=999)):
                for u in ("second", "minute", "hour"):
                    for op in ("floor", "ceil", "round"):
                        do_point(u, op, t + off)
                acc.nontriv += 1
            t += timedelta(hours=1)
        acc.sample({"op": "round", "unit": "hour", "t": t - timedelta(minutes=30)})
    else:
        idx = 0
        for t0 in start_instants():
            for u in cal.UNITS:
                for sp in SPANS:
                    idx += 1
                    if idx % shard["mod"] != shard["rem"]:
                        continue
                    t1 = t0 + sp * NOMINAL[u]
                    acc.states += 1
                    for dt in DTS:
                        acc.evals += 1
                        acc.trans += 1
                        acc.counters["range_ops"] += 1
                        bad = range_case(d3_time[u], u, t0, t1, dt, d3_time.get(u + "s") if dt in (1, 5) else None)
                        if sp:
                            acc.nontriv += 1
                        if bad:
                            acc.violation({"op": "range", "unit": u, "t0": t0, "t1": t1, "dt": dt}, bad[0], bad[1],
                                          order=(1, cal.UNITS.index(u), dt, cal.ms_of(t0)))
        acc.sample({"op": "range", "unit": u, "t0": t0, "t1": t1, "dt": 12})
    return acc


def replay(case):
    from labella.d3_time import d3_time
    u = case["unit"]
    if case.get("ambient"):
        from mc.ambient import setting
        with setting(case["ambient"]):
            bad = replay({k: v for k, v in case.items() if k != "ambient"})
        return (bad[0] + ":" + case["ambient"], bad[1]) if bad else None
    if case["op"] == "range":
        return range_case(d3_time[u], u, case["t0"], case["t1"], case["dt"], d3_time.get(u + "s"))
    return point_case(d3_time[u], u, case["op"], case["t"], case.get("k"))


def snippet(case):
    if case["op"] == "range":
        return ("from datetime import datetime\nfrom labella.d3_time import d3_time\n"
                "print(d3_time[%r].range(%r, %r, %d))" % (case["unit"], case["t0"], case["t1"], case["dt"]))
    arg = "%r" % (case["t"],) if case["op"] != "offset" else "d3_time[%r].floor(%r), %d" % (case["unit"], case["t"], case["k"])
    return ("import datetime\nfrom labella.d3_time import d3_time\nprint(d3_time[%r].%s(%s))"
            % (case["unit"], case["op"], arg))
