"""C15 - the time scale is affine in elapsed time and invertible."""
from datetime import datetime, timedelta
from fractions import Fraction as F

from mc import cal, timegrid
from mc.core import Acc

ID = "C15"
RULE = ("E-INPUT: every ordered pair of distinct domain instants from a set of datetimes spanning 1900..2200 (epoch neighbours, "
        "leap day, year ends, ms-resolution instants: 120 instants, thorough 408; + a seeded instant), plus domains of 1 ms .. 61 s at every instant, x 3 ranges (scale built domain-then-range, range-then-domain, by re-domaining a live scale, around a caller-owned inner LinearScale that is re-ranged after first use, from caller-owned lists that the caller edits afterwards, before a later re-domain, or from one-shot iterators, in rotation; every other query instant is an instance of a datetime subclass) x query instants "
        "(end points, 5 interior fractions, 4 exterior points) through the real TimeScale. Oracle: exact affine map on naive "
        "epoch milliseconds (rationals); invert within 1 ms inside the domain; agreement with LinearScale on the oracle's "
        "milliseconds. Non-trivial: query strictly inside or outside the domain.")
ASSUMPTIONS = ["TZ=UTC here; zone independence is C18", "relative tolerance 1e-9 of the range span for mapped positions"]
REQUIRED_COUNTERS = ("queries", "pre_epoch_domains", "reversed_domains", "short_domains")

BASE = [datetime(1900, 1, 1), datetime(1969, 12, 31, 23, 59, 59, 999000), datetime(1970, 1, 1), datetime(1970, 1, 1, 0, 0, 0, 1000),
        datetime(1999, 12, 31, 23, 59, 59), datetime(2000, 2, 29, 12), datetime(2001, 9, 9, 1, 46, 40), datetime(2020, 1, 31),
        datetime(2020, 3, 1, 13, 30, 15, 250000), datetime(2021, 3, 14, 2, 30), datetime(2021, 11, 7, 1, 30),
        datetime(2038, 1, 19, 3, 14, 8), datetime(2100, 2, 28, 23, 59, 59, 999000), datetime(2199, 12, 31)]
MORE = [datetime(1900 + 11 * k, 1 + (5 * k) % 12, 1 + (7 * k) % 28, (3 * k) % 24, (11 * k) % 60, (13 * k) % 60, (97 * k % 1000) * 1000)
        for k in range(1, 27)]
DENSE = [datetime(1900, 1, 1) + timedelta(days=1373 * k, hours=(5 * k) % 24, minutes=(17 * k) % 60, seconds=(29 * k) % 60,
                                           milliseconds=(313 * k) % 1000) for k in range(1, 80)]
DENSE += [datetime(1900, 1, 1) + timedelta(days=367 * k, hours=(7 * k) % 24, minutes=(31 * k) % 60, seconds=(43 * k) % 60,
                                            milliseconds=(577 * k) % 1000) for k in range(1, 290)]
RANGES = [[0, 1], [0, 360], [500, -500]]
FRACS = [F(1, 2), F(1, 3), F(1, 10), F(9, 10), F(999, 1000)]
EXT = [F(-1), F(2), F(-1, 10), F(4)]


def bounds(tier, seed):
    return {"instants": len(BASE) + len(MORE) + (len(DENSE) if tier == "thorough" else 79) + 1, "ranges": RANGES,
            "queries_per_domain": 2 + len(FRACS) + len(EXT)}


ORDERS = ("domain-range", "range-domain", "redomain", "inner-linear", "caller-lists", "iterators")


class Stamp(datetime):
    """A datetime subclass (what pandas.Timestamp or pendulum.DateTime are): still a naive wall-clock instant."""


def make_scale(t0, t1, rng, order):
    from labella.scale import TimeScale
    if order == "domain-range":
        return TimeScale().domain([t0, t1]).range(list(rng))
    if order == "range-domain":
        return TimeScale().range(list(rng)).domain([t0, t1])
    if order == "iterators":
        # one-shot iterables (generators, reversed(), map objects) are as good as lists: a live scale is re-domained and
        # re-ranged from them
        s = TimeScale().domain([datetime(2000, 1, 1), datetime(2001, 1, 1)]).range([7, 8])
        s.domain(t for t in (t0, t1))
        s.range(reversed([rng[1], rng[0]]))
        return s
    if order == "caller-lists":
        # the caller goes on using the lists it handed to the setters (a narrow and a wide axis built from one list)
        r, d = list(rng), [t0 + (t1 - t0) / 3, t1]
        s = TimeScale().range(r).domain(d)
        r.reverse()
        r.append(0)
        d[:] = [t1, t0, t0]
        return s.domain([t0, t1]).clamp(False)
    if order == "inner-linear":
        # the documented constructor argument: the caller owns the inner linear scale and re-ranges it later
        from labella.scale import LinearScale
        inner = LinearScale()
        s = TimeScale(linear=inner).domain([t0, t1]).range([7, 8])
        for q in (t0, t1, t0 + (t1 - t0) / 2):
            s(q)
        inner.range(list(rng))
        return s
    s = TimeScale().domain([datetime(2000, 1, 1), datetime(2001, 1, 1)]).range(list(rng))
    return s.domain([t0, t1])  # a live scale gets a new domain


def judge(t0, t1, rng, acc=None, order="domain-range"):
    from labella.scale import LinearScale, TimeScale
    where = "domain [%s, %s] range %r (%s)" % (t0, t1, rng, order)
    try:
        s = make_scale(t0, t1, rng, order)
        y0, y1 = s(t0), s(t1)
        dom = s.domain()
    except Exception as e:
        return "EXC:" + type(e).__name__, "%s raised %r" % (where, e)
    if y0 != rng[0] or y1 != rng[1]:
        return "C15:end-points", "%s: end points map to %r, %r" % (where, y0, y1)
    if abs(dom[0] - t0) > cal.MS or abs(dom[1] - t1) > cal.MS:
        return "C15:domain-report", "%s: domain() reports %s, %s" % (where, dom[0], dom[1])
    m0, m1 = F(cal.ms_of(t0)), F(cal.ms_of(t1))
    lin = LinearScale().domain([float(m0), float(m1)]).range(list(rng))
    span = abs(rng[1] - rng[0])
    pts = []
    for fr in [F(0), F(1)] + FRACS + EXT:
        ms = m0 + (m1 - m0) * fr
        ms = F(round(ms))  # millisecond resolution
        try:
            t = cal.EPOCH + timedelta(milliseconds=int(ms))
        except OverflowError:
            continue
        if not (1 <= t.year <= 9998):
            continue
        frac = (ms - m0) / (m1 - m0)
        exact = F(rng[0]) + (F(rng[1]) - F(rng[0])) * frac
        if len(pts) % 2:  # every other query instant is an instance of a datetime subclass
            t = Stamp(t.year, t.month, t.day, t.hour, t.minute, t.second, t.microsecond)
        try:
            y = s(t)
            back = s.invert(y)
        except Exception as e:
            return "EXC:" + type(e).__name__, "%s at %s raised %r" % (where, t, e)
        if acc is not None:
            acc.counters["queries"] += 1
            acc.evals += 1  # one evaluation = one (domain, range, call order, query) case
            acc.trans += 1
            if fr not in (0, 1):
                acc.nontriv += 1
        tol = 1e-9 * span * (1 + abs(float(frac)))
        if abs(F(y) - exact) > tol:
            return ("C15:not-affine", "%s: scale(%s) = %r, proportional to elapsed time would be %r" % (where, t, y, float(exact)))
        if abs(y - lin(float(ms))) > tol:
            return ("C15:differs-from-linear", "%s: scale(%s) = %r but a linear scale on epoch ms gives %r"
                    % (where, t, y, lin(float(ms))))
        if 0 <= frac <= 1 and abs(back - t) > cal.MS:
            return "C15:invert", "%s: invert(scale(%s)) = %s" % (where, t, back)
        pts.append((ms, y))
    pts.sort()
    sign = (1 if rng[1] > rng[0] else -1) * (1 if m1 > m0 else -1)
    for (a, ya), (b, yb) in zip(pts, pts[1:]):
        if a != b and (yb - ya) * sign <= 0:
            return "C15:not-monotone", "%s: instants %r ms < %r ms map to %r, %r" % (where, float(a), float(b), ya, yb)
    return None


def instants(tier, seed):
    return BASE + MORE + (DENSE if tier == "thorough" else DENSE[:79:1]) + [timegrid.seeded_start(seed)]


def plan(tier, seed):
    return [{"tier": tier, "seed": seed, "mod": 32, "rem": r} for r in range(32)]


def run_shard(shard):
    acc = Acc()
    ins = instants(shard["tier"], shard["seed"])
    k = 0
    for t0 in ins:
        for t1 in ins:
            if t0 == t1:
                continue
            k += 1
            if k % shard["mod"] != shard["rem"]:
                continue
            acc.states += 1
            if t0 < cal.EPOCH or t1 < cal.EPOCH:
                acc.counters["pre_epoch_domains"] += 1
            if t1 < t0:
                acc.counters["reversed_domains"] += 1
            for ri, rng in enumerate(RANGES):
                order = ORDERS[(k + ri) % len(ORDERS)]
                bad = judge(t0, t1, rng, acc, order)
                if bad:
                    acc.violation({"t0": t0, "t1": t1, "range": rng, "order": order}, bad[0], bad[1], order=(k,))
    # short domains: a few milliseconds to a few seconds, far from and near the epoch
    for bi, t0 in enumerate(ins):
        if bi % shard["mod"] != shard["rem"]:
            continue
        for ms in (1, 8, 250, 1500, 5000, 61000):
            for a, b in ((t0, t0 + timedelta(milliseconds=ms)), (t0 + timedelta(milliseconds=ms), t0)):
                acc.states += 1
                acc.counters["short_domains"] += 1
                for ri, rng in enumerate(RANGES):
                    order = ORDERS[(bi + ri) % len(ORDERS)]
                    bad = judge(a, b, rng, acc, order)
                    if bad:
                        acc.violation({"t0": a, "t1": b, "range": rng, "order": order}, bad[0], bad[1], order=(10 ** 6 + ms, bi))
    acc.sample({"t0": t0, "t1": t1, "range": rng, "order": "redomain"})
    return acc


def replay(case):
    return judge(case["t0"], case["t1"], case["range"], None, case.get("order", "domain-range"))


def snippet(case):
    return ("import datetime\nfrom labella.scale import TimeScale\ns=TimeScale().domain([%r, %r]).range(%r)\n"
            "print(s(%r), s(%r), s.domain())" % (case["t0"], case["t1"], case["range"], case["t0"], case["t1"]))
