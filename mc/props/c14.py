"""C14 - nice() only widens a domain, by < 2 tick steps, to round end points."""
import itertools
import math
from fractions import Fraction
from datetime import datetime, timedelta

from mc import cal, lingrid, timegrid
from mc.core import Acc, Hang, horizon
from mc.props.c16 import CLASS_UNIT, cls

ID = "C14"
RULE = ("E-INPUT: linear half = the C13 end-point grid x m in {default,1,2,3,5,7,10,20,50,100} through LinearScale.nice(m), every fourth pair also as a three-entry piecewise domain [a, a+0.375(b-a), b], plus domains whose span is 2.3e-7 .. 8.1e-12 of their magnitude and every fifth grid pair scaled by 1e-12 and 1e-100; "
        "time half = start instants (month ends, week/year boundaries of a leap and a non-leap year x 3 times of day, early "
        "instants, a seeded instant) x spans 10 ms..200 y x both orientations x counts {default,2,5,10,20,50} through "
        "TimeScale.nice(m), every third start also as nice(m, skip). Oracle: orientation kept, no end inward, outward move < 2 tick steps (step measured through the "
        "public ticks()), ends round (multiple of step/10; R-CAL boundary of the ticks' calendar class). "
        "Non-trivial: an end point actually moved.")
ASSUMPTIONS = ["linear roundness tolerance 1e-6 of the step; time ends judged to 1 ms when the ticks are sub-second",
               "TZ=UTC here; zone independence is C18"]
REQUIRED_COUNTERS = ("linear_cases", "linear_piecewise_cases", "time_cases", "time_cases_with_skip_argument", "linear_moved", "time_moved", "time_reversed")
EPS = 2.220446049250313e-16
LIN_MS = [None, 1, 2, 3, 5, 7, 10, 20, 50, 100]
TIME_MS = [None, 2, 5, 10, 20, 50]
TSPANS = [s for s in timegrid.SPANS_MS if 10 <= s <= 73050 * timegrid.D]


def bounds(tier, seed):
    return {"linear": {"values": len(lingrid.values(tier)), "m": LIN_MS},
            "time": {"spans_ms": [TSPANS[0], TSPANS[-1]], "rungs": len(TSPANS), "counts": TIME_MS,
                     "starts": "month-end days 2019-2020 x 3 tods (+early, seeded)" + ("; every day 2019-2024" if tier == "thorough" else "")}}


# ------------------------------------------------------------------ linear
def judge_linear(a, b, m, acc=None, mid=None):
    """mid: an interior break point (a piecewise-linear domain [a, mid, b]); the domain's ends are still a and b."""
    from labella.scale import LinearScale
    try:
        with horizon(10.0):
            s = LinearScale().domain([a, b]) if mid is None else LinearScale().domain([a, mid, b]).range([0, 1, 2])
            s.nice(m) if m is not None else s.nice()
            nd = [float(v) for v in s.domain()]
            na, nb = nd[0], nd[-1]
            tk = [float(t) for t in itertools.islice(LinearScale().domain([na, nb]).ticks(m), 10001)]
    except Hang:
        return "HANG", "nice(%r) on [%r, %r] did not return" % (m, a, b)
    except Exception as e:
        return "EXC:" + type(e).__name__, "nice(%r) on [%r, %r] raised %r" % (m, a, b, e)
    where = "nice(%r) on [%r, %r] -> [%r, %r]" % (m, a, b, na, nb)
    if mid is not None:
        where = "nice(%r) on [%r, %r, %r] -> %r" % (m, a, mid, b, nd)
        if len(nd) != 3:
            return "C14:lin-break-points", where
        if acc is not None:
            acc.counters["linear_piecewise_cases"] += 1
    if acc is not None:
        acc.counters["linear_cases"] += 1
        if (na, nb) != (a, b):
            acc.counters["linear_moved"] += 1
            acc.nontriv += 1
    if (na < nb) != (a < b) or na == nb:
        return "C14:lin-orientation", where
    lo, hi, nlo, nhi = min(a, b), max(a, b), min(na, nb), max(na, nb)
    mag0 = max(abs(lo), abs(hi))
    if nlo > lo + 8 * EPS * mag0 or nhi < hi - 8 * EPS * mag0:  # beyond float rounding of k*step
        return "C14:lin-inward", where
    mag = max(abs(nlo), abs(nhi))
    if len(tk) < 2:
        # fewer than two ticks to measure the step from: use the documented rule itself (1, 2 or 5 x 10^k, the value
        # nearest span / m in the sense of the 0.15 / 0.35 / 0.75 thresholds) on the resulting domain
        if acc is not None:
            acc.counters["linear_no_step"] += 1
        span, mm = nhi - nlo, (10 if m is None else m)
        if not (span > 0 and mm >= 1):
            return None
        st0 = 10.0 ** math.floor(math.log10(span / mm))
        err = mm / span * st0
        step = st0 * (10 if err <= 0.15 else 5 if err <= 0.35 else 2 if err <= 0.75 else 1)
        tk = [0.0, step]
    step = (tk[-1] - tk[0]) / (len(tk) - 1)
    # the tick step is 1, 2 or 5 x 10^k (C13): use that exact value, the measured mean gap carries float error
    k = math.floor(math.log10(step) + 1e-9)
    lead = min((1, 2, 5, 10), key=lambda c: abs(step / 10 ** k - c))
    stepx = Fraction(lead) * Fraction(10) ** k
    # (the measured mean gap of n accumulated ticks is off by up to ~1 ulp of the end points per step)
    if abs(Fraction(step) - stepx) > Fraction(1, 10 ** 6) * stepx + Fraction(2 * EPS * mag):
        if acc is not None:
            acc.counters["linear_step_not_125"] += 1
        stepx = Fraction(step)
    tol = Fraction(1, 10 ** 6) * stepx + Fraction(8 * EPS * mag)
    if Fraction(lo) - Fraction(nlo) >= 2 * stepx - tol or Fraction(nhi) - Fraction(hi) >= 2 * stepx - tol:
        return "C14:lin-too-far", "%s: moved %r / %r with tick step %r" % (where, lo - nlo, nhi - hi, float(stepx))
    for v in (nlo, nhi):
        q = Fraction(v) / (stepx / 10)
        if abs(q - round(q)) * (stepx / 10) > tol:
            return "C14:lin-not-round", "%s: end %r is not a multiple of a tenth of the step %r" % (where, v, float(stepx))
    return None


def very_narrow_pairs(vals):
    """Non-degenerate domains whose span is only 2e-7 .. 8e-12 of their magnitude (C14 is stated for all non-degenerate
    domains; the tick step is still 1e5 .. 1e7 units in the last place of the end points)."""
    for v in vals:
        if v == 0:
            continue
        for rel in (2.3e-7, 3.1e-8, 1.9e-8, 4.7e-9, 6.3e-11, 8.1e-12):
            w = v * (1 + rel)
            if w != v:
                yield v, w
                yield w, v
    # the grid again at microscopic absolute sizes (the rule is scale-free: nothing may depend on an absolute threshold)
    for k, (a, b) in enumerate(lingrid.pairs(vals)):
        if k % 5 == 0:
            for sc in (1e-12, 1e-100):
                yield a * sc, b * sc


# ------------------------------------------------------------------ time
def judge_time(st, sp, m, rev, acc=None, skip=None):
    """skip: the optional second argument of nice(count, skip); next to a count it has no meaning (the tick method
    decides interval and skip), the result is judged exactly as for nice(count)."""
    from labella.scale import TimeScale
    en = st + timedelta(milliseconds=sp)
    dom = [en, st] if rev else [st, en]
    try:
        with horizon(10.0):
            s = TimeScale().domain(list(dom))
            if skip is not None:
                s.nice(m, skip)
            else:
                s.nice(m) if m is not None else s.nice()
            nd = s.domain()
            tk = list(TimeScale().domain(list(dom)).ticks(m) if m is not None else TimeScale().domain(list(dom)).ticks())
    except Hang:
        return "HANG", "time nice(%r) on [%s, %s] did not return" % (m, dom[0], dom[1])
    except Exception as e:
        return "EXC:" + type(e).__name__, "time nice(%r) on [%s, %s] raised %r" % (m, dom[0], dom[1], e)
    where = "nice(%r) on [%s, %s] -> [%s, %s]" % (m, dom[0], dom[1], nd[0], nd[1])
    if skip is not None:
        where = "nice(%r, %r) on [%s, %s] -> [%s, %s]" % (m, skip, dom[0], dom[1], nd[0], nd[1])
        if acc is not None:
            acc.counters["time_cases_with_skip_argument"] += 1
    if acc is not None:
        acc.counters["time_cases"] += 1
        if rev:
            acc.counters["time_reversed"] += 1
        if list(nd) != list(dom):
            acc.counters["time_moved"] += 1
            acc.nontriv += 1
    if (nd[0] < nd[1]) != (dom[0] < dom[1]):
        return "C14:time-orientation", where
    nlo, nhi = min(nd), max(nd)
    if nlo > st or nhi < en:
        return "C14:time-inward", where
    if len(tk) < 2:
        if acc is not None:
            acc.counters["time_no_step"] += 1
        return None
    gaps = [y - x for x, y in zip(tk, tk[1:])]
    step = max(gaps)
    if st - nlo >= 2 * step or nhi - en >= 2 * step:
        return "C14:time-too-far", "%s: moved %s / %s with tick step %s" % (where, st - nlo, nhi - en, step)
    c = cls(min(gaps).total_seconds())
    if acc is not None:
        acc.counters["time_class_" + c] += 1
    for v in (nlo, nhi):
        if c == "ms":
            if v.microsecond % 1000 not in (0, 1, 999):
                return "C14:time-not-round", "%s: end %s is not on a millisecond" % (where, v)
        elif not cal.is_boundary(CLASS_UNIT[c], v):
            return ("C14:time-not-round", "%s: ticks are spaced by %s (class %s) but end %s is not on a %s boundary"
                    % (where, min(gaps), c, v, CLASS_UNIT[c]))
    return None


def time_starts(kind, seed):
    out = []
    if kind == "grid":
        for d in timegrid.month_end_days((2019, 2020)):
            if d.day >= 27 or d.day <= 2:
                out += [d, d + timegrid.TOD1, d + timegrid.TOD2]
        out += timegrid.EARLY + [timegrid.seeded_start(seed)]
    else:
        for d in timegrid.all_days(2019, 2024):
            out += [d + timegrid.TOD1]
    return out


def plan(tier, seed):
    n = 32 if tier == "quick" else 128
    shards = [{"kind": "lin", "vals": "grid", "tier": tier, "mod": n, "rem": r} for r in range(n)]
    shards.append({"kind": "lin", "vals": "seed", "seed": seed, "mod": 1, "rem": 0})
    for r in range(32):
        shards.append({"kind": "time", "starts": "grid", "seed": seed, "mod": 32, "rem": r})
    if tier == "thorough":
        for r in range(96):
            shards.append({"kind": "time", "starts": "days", "seed": seed, "mod": 96, "rem": r})
    return shards


def run_shard(shard):
    acc = Acc()
    if shard["kind"] == "lin":
        vals = lingrid.values(shard["tier"]) if shard["vals"] == "grid" else lingrid.seeded_values(shard["seed"])
        for i, (a, b) in enumerate(itertools.chain(lingrid.pairs(vals), very_narrow_pairs(vals))):
            if i % shard["mod"] != shard["rem"]:
                continue
            acc.states += 1
            for m in LIN_MS:
                bad = judge_linear(a, b, m, acc)
                acc.evals += 1
                acc.trans += 1
                if bad:
                    acc.violation({"kind": "lin", "a": a, "b": b, "m": m}, bad[0], bad[1], order=(0, i, m or 0))
                if (i // shard["mod"]) % 4 == 0:  # every fourth pair also as a piecewise-linear domain with one interior break point
                    mid = a + (b - a) * 0.375
                    if mid != a and mid != b:
                        bad = judge_linear(a, b, m, acc, mid)
                        acc.evals += 1
                        acc.trans += 1
                        if bad:
                            acc.violation({"kind": "lin", "a": a, "b": b, "m": m, "mid": mid}, bad[0], bad[1], order=(0, i, m or 0, 1))
        acc.sample({"kind": "lin", "a": a, "b": b, "m": 5})
        return acc
    for si, st in enumerate(time_starts(shard["starts"], shard["seed"])):
        if si % shard["mod"] != shard["rem"]:
            continue
        for sp in TSPANS:
            en = st + timedelta(milliseconds=sp)
            if en.year > 2200:
                continue
            acc.states += 1
            for m in TIME_MS:
                for rev in (False, True):
                    bad = judge_time(st, sp, m, rev, acc)
                    acc.evals += 1
                    acc.trans += 1
                    if bad:
                        acc.violation({"kind": "time", "start": st, "span_ms": sp, "m": m, "rev": rev}, bad[0], bad[1],
                                      order=(1, sp, m or 0, int(rev), cal.ms_of(st)))
            if (si // shard["mod"]) % 3 == 0:  # every third start: the two-argument form nice(count, skip)
                for m, skip in ((5, 3), (10, 7)):
                    bad = judge_time(st, sp, m, False, acc, skip)
                    acc.evals += 1
                    acc.trans += 1
                    if bad:
                        acc.violation({"kind": "time", "start": st, "span_ms": sp, "m": m, "rev": False, "skip": skip}, bad[0], bad[1],
                                      order=(1, sp, m, 2, cal.ms_of(st)))
    acc.sample({"kind": "time", "start": st, "span_ms": sp, "m": m, "rev": rev})
    return acc


def replay(case):
    if case["kind"] == "lin":
        return judge_linear(case["a"], case["b"], case["m"], None, case.get("mid"))
    return judge_time(case["start"], case["span_ms"], case["m"], case["rev"], None, case.get("skip"))


def snippet(case):
    if case["kind"] == "lin":
        return ("from labella.scale import LinearScale\nprint(LinearScale().domain([%r, %r]).nice(%r).domain())"
                % (case["a"], case["b"], case["m"]))
    en = case["start"] + timedelta(milliseconds=case["span_ms"])
    dom = [en, case["start"]] if case["rev"] else [case["start"], en]
    return ("import datetime\nfrom labella.scale import TimeScale\nprint(TimeScale().domain(%r).nice(%r).domain())"
            % (dom, case["m"]))
