"""C07 - every datum drawn once, at its true time, linked to its own label."""
import copy
import datetime as _dt

from mc import draw, drawcases as dc
from mc.core import Acc, Hang

ID = "C07"
RULE = ("E-INPUT: every dataset of <= 2 (thorough <= 3) data as sequences (each multiset also reversed / rotated) over 6 times x "
        "widths {20,55} x text {absent,'ab','<&>\"e-acute'}, for numeric times on a LinearScale and for datetime/date values "
        "(4 with a time of day, a date, a month end) on a TimeScale (caller-supplied, or the library default for directions up/left with default engine options); plus bare datetime.time data and a seeded time; x 4 "
        "directions x domain {derived, explicit} x 5 engine option sets (one of them also with a custom timeFn accessor over records whose 'time' field holds another value) x 2 (size, layer gap, padding, margin, tick display) "
        "x 2 back-ends; plus 4-datum sets on axes of ~2000, ~40000 and ~3,000,000 units with 4 explicit domains. Each case = real Timeline(...).export(), parsed (R-SVG/R-TIKZ), compared with the affine model of the "
        "caller's own data. Non-trivial: >= 2 layers or a displaced label.")
ASSUMPTIONS = ["explicit widths only (no LaTeX in the image)", "the drawn ticks are the ticks the timeline's scale reports for some requested count 1..100 (the default first), with the formatter of that count",
               "margin scopes are not compared (documented TikZ limitation)"]
REQUIRED_COUNTERS = ("exports", "multi_layer", "displaced", "time_of_day_data", "text_special", "default_scale_exports", "custom_time_accessor_exports", "long_axis_exports")


def bounds(tier, seed):
    return {"max_data": 2 if tier == "quick" else 3, "letters_per_kind": 36, "directions": 4, "domains": 2, "engine": len(dc.ENGINE),
            "sizes": len(dc.SIZES), "backends": 2, "seeded_time": repr(_seed_times(seed))}


def _seed_times(seed):
    return (_dt.datetime(2020, 1, 1 + seed % 28, (seed * 5) % 24, (seed * 7) % 60, (seed * 11) % 60), 2.25 + (seed % 7))


def configs():
    out = []
    for direction in dc.DIRECTIONS:
        for domain in (False, True):
            for ei in range(len(dc.ENGINE)):
                for si in range(dc.N_BASE_SIZES):
                    out.append((direction, domain, ei, si, si == 0))
    return out


def judge(case, acc=None):
    kind, backend = case["kind"], case["backend"]
    data = [dict(d) for d in case["data"]]
    direction, domain, ei, si, ticks = case["cfg"]
    opts = dc.build_options(kind, direction, domain, dc.ENGINE[ei], dc.SIZES[si], ticks)
    if not domain and len({draw.as_number(draw.to_instant(d["time"], _dt.date(2020, 1, 1))) for d in data}) < 2:
        return "SKIP", "degenerate derived domain (C11's business)"
    default_scale = kind == "time" and ei == 0 and direction in ("up", "left")
    if default_scale:
        del opts["scale"]  # the library's own default time scale
    scale = opts.get("scale")
    today0 = _dt.date.today()
    shown = data
    if case.get("timefn"):
        # the documented timeFn option: positions come from the accessor; the records' "time" field holds something else
        # (the mirror image of the true time), so reading it instead of calling the accessor puts the dots elsewhere
        shown = [dict(d, when=d["time"], time=(10 - d["time"])) for d in data]
        opts["timeFn"] = lambda d: d["when"]
        if acc is not None:
            acc.counters["custom_time_accessor_exports"] += 1
    try:
        doc, tl, R = dc.run_export(backend, shown, opts)
        if scale is None:
            scale = tl.options["scale"]
            if acc is not None:
                acc.counters["default_scale_exports"] += 1
    except Hang:
        return "HANG", "export did not return"
    except draw.ParseError as e:
        return "C07:parse", "export is not a well-formed %s drawing: %s" % (backend, e)
    except Exception as e:
        return "EXC:" + type(e).__name__, "export raised %r" % (e,)
    if _dt.date.today() != today0:
        return "SKIP", "midnight roll-over during the case"
    bad = dc.check_geometry(R, backend, data, opts, scale, today0)
    if acc is not None:
        acc.counters["exports"] += 1
        nl, disp = dc.classify(R, direction, opts)
        if nl > 1:
            acc.counters["multi_layer"] += 1
        if disp:
            acc.counters["displaced"] += 1
        if nl > 1 or disp:
            acc.nontriv += 1
        if any(isinstance(d["time"], _dt.datetime) and d["time"].time() != _dt.time(0) for d in data):
            acc.counters["time_of_day_data"] += 1
        if any("<" in (d.get("text") or "") for d in data):
            acc.counters["text_special"] += 1
        acc.outcome((direction, nl, kind))
    return bad


def datasets(shard):
    if shard["kind"] in ("lin", "time"):
        alpha = dc.letters(shard["kind"])
        for seq in dc.sequences(alpha, shard["nmax"]):
            yield shard["kind"], [dc.datum(l) for l in seq]
    elif shard["kind"] == "clock":
        # bare datetime.time values (the library puts them on today's date)
        ts = (_dt.time(0, 0), _dt.time(6, 30), _dt.time(13, 30, 15), _dt.time(23, 59, 59))
        alpha = [(t, 30, x) for t in ts for x in (None, "ab")]
        for seq in dc.sequences(alpha, 2):
            yield "time", [dc.datum(l) for l in seq]
    else:
        t, x = _seed_times(shard["seed"])
        for kind, tv, other in (("time", t, dc.DT_TIMES), ("lin", x, dc.LIN_TIMES)):
            for o in other:
                for w in dc.WIDTHS:
                    yield kind, [dc.datum((tv, w, "ab")), dc.datum((o, 55, None))]
                # an explicit width of 0 (with and without text) is a width, not "no width"
                yield kind, [dc.datum((tv, 0, None)), dc.datum((o, 20, "ab")), dc.datum((o, 0, "x"))]
        # numeric times of large magnitude and small span (epoch seconds; Julian days): the derived axis must still cover them
        for base, offs in ((1.7e9, (-0.8, 12.25, 93.7)), (1.0e8, (0.0, 1.3, 2.5)), (2460310.25, (0.0, 2.5, 4.75)), (1.0e12, (0.5, 250.0, 999.5))):
            yield "lin", [dc.datum((base + o, 30, None)) for o in offs]
            yield "lin", [dc.datum((base + o, 30, "ab")) for o in offs[::-1]]


def _inside_fixed_domain(kind, data):
    lo, hi = dc.LIN_DOMAIN if kind == "lin" else dc.DT_DOMAIN
    try:
        return all(lo <= draw.to_instant(d["time"]) <= hi for d in data)
    except TypeError:
        return False


def plan(tier, seed):
    nmax = 2 if tier == "quick" else 3
    n = 24 if tier == "quick" else 96
    shards = []
    for kind in ("lin", "time"):
        for r in range(n):
            shards.append({"kind": kind, "nmax": nmax, "mod": n, "rem": r})
    shards.append({"kind": "clock", "mod": 1, "rem": 0})
    shards.append({"kind": "seed", "seed": seed, "mod": 1, "rem": 0})
    return shards


def run_shard(shard):
    acc = Acc()
    cfgs = configs()
    case = None
    for di, (kind, data) in enumerate(datasets(shard)):
        if di % shard["mod"] != shard["rem"]:
            continue
        acc.states += 1
        for ci, cfg in enumerate(cfgs):
            if cfg[1] and (shard["kind"] == "clock" or not _inside_fixed_domain(kind, data)):
                continue  # the explicit domain is a fixed range: only for data it covers (clock data live on today's date)
            for backend in ("svg", "tex"):
                case = {"kind": kind, "data": data, "cfg": list(cfg), "backend": backend}
                bad = judge(case, acc)
                acc.evals += 1
                acc.trans += 1
                if bad and bad[0] == "SKIP":
                    acc.counters["skipped_" + bad[1].split()[0]] += 1
                elif bad:
                    acc.violation(case, bad[0], bad[1], order=(len(data), di, ci, backend))
                if kind == "lin" and cfg[2] == 1 and cfg[3] == 0 and shard["kind"] == "lin":
                    case = {"kind": kind, "data": data, "cfg": list(cfg), "backend": backend, "timefn": True}
                    bad = judge(case, acc)
                    acc.evals += 1
                    acc.trans += 1
                    if bad and bad[0] != "SKIP":
                        acc.violation(case, bad[0] + ":timeFn", bad[1], order=(len(data), di, ci, backend, 1))
    if shard["kind"] == "seed":  # long axes: ~2000 and ~40000 units, explicit domains
        for kind in ("lin", "time"):
            for li, (si, direction, dom, data) in enumerate(dc.long_axis_cases(kind)):
                for backend in ("svg", "tex"):
                    case = {"kind": kind, "data": data, "cfg": [direction, dom, 1 if li % 2 else 0, si, True], "backend": backend}
                    bad = judge(case, acc)
                    acc.evals += 1
                    acc.trans += 1
                    acc.states += 1
                    acc.counters["long_axis_exports"] += 1
                    if bad and bad[0] != "SKIP":
                        acc.violation(case, bad[0], bad[1], order=(9, li, 0, backend))
        # sub-millisecond data: datetimes with microseconds on an axis that spans 3 ms (near the epoch, so that the float
        # milliseconds of the library and of the oracle are exact to 1e-13); explicit and derived domain
        t0 = _dt.datetime(1970, 1, 1, 0, 0, 1)
        us = lambda k: t0 + _dt.timedelta(microseconds=k)
        micro = [dc.datum((us(250), 20, "ab")), dc.datum((us(1500), 20, None)), dc.datum((us(2750), 20, "ab")), dc.datum((us(2999), 20, None))]
        for direction in dc.DIRECTIONS:
            for dom in ([t0, us(3000)], False):
                for backend in ("svg", "tex"):
                    case = {"kind": "time", "data": micro, "cfg": [direction, dom, 1, 0, True], "backend": backend}
                    bad = judge(case, acc)
                    acc.evals += 1
                    acc.trans += 1
                    acc.states += 1
                    acc.counters["sub_millisecond_exports"] += 1
                    if bad and bad[0] != "SKIP":
                        acc.violation(case, bad[0], bad[1], order=(9, 99, 0, backend))
    if case:
        acc.sample(case)
    return acc


def replay(case):
    case = dict(case)
    bad = judge(case)
    if bad and case.get("timefn") and bad[0] != "SKIP":
        bad = (bad[0] + ":timeFn", bad[1])
    return None if bad is None or bad[0] == "SKIP" else bad


def snippet(case):
    direction, domain, ei, si, ticks = case["cfg"]
    return ("import datetime\nfrom labella.scale import LinearScale, TimeScale\nfrom labella.timeline import TimelineSVG, TimelineTex\n"
            "data=%r\nopts=dict(direction=%r, labella=%r, showTicks=%r, scale=%s, **%r)\n%s"
            "print(%s(data, opts).export())"
            % (case["data"], direction, dc.ENGINE[ei], ticks, "LinearScale()" if case["kind"] == "lin" else "TimeScale()",
               dc.SIZES[si], ("opts['domain']=%r\n" % (dc.LIN_DOMAIN if case["kind"] == "lin" else dc.DT_DOMAIN)) if domain else "",
               "TimelineSVG" if case["backend"] == "svg" else "TimelineTex"))
