"""C10 - a timeline's export depends only on its own data and options.  E-HIST."""
import collections
import copy
import datetime as _dt
import json
import os
import subprocess
import sys

from mc import core
from mc.core import Acc, Hang, fp_hash, horizon, labella_globals, purge_labella

ID = "C10"
RULE = ("E-HIST: breadth-first search over every history of construct/export operations (new(X, svg|tex), export(latest X)) on "
        "5 (thorough 6) timeline specs - default time scale (two of them built from ONE caller options dict), caller-supplied "
        "LinearScales with equal-span domains at different offsets, explicit domain; together using every option group - up to depth 8 with one back-end per spec (thorough: both back-ends, 6 specs, depth 7). Every history is replayed from a purged, re-imported library; "
        "states are deduplicated by a fingerprint of the instances AND all labella module/class globals (aliasing included). "
        "Oracle: every export is byte-identical to the export of the same spec alone in a fresh interpreter process. "
        "Plus every ordered pair of 32 default-scale timelines spanning 40 s .. 67 y (incl. multi-year extents on either side of the year-step thresholds) anchored around one calendar boundary (all tick units), built one after the other; plus three exports in a row of one default-scale timeline for every data extent start x span (8 starts, thorough 16, x the span ladder 1 s .. 200 y x factors {1, 1.37, 0.73}), each compared with the export of a fresh timeline; plus every spec alone in fresh interpreters started with -O and -OO. Non-trivial: an export made after a different spec was constructed or exported since this instance was built.")
ASSUMPTIONS = ["reference documents come from fresh subprocesses started by the check (one per spec and back-end)",
               "data and options are deep-copied per construction; caller-side sharing is outside the claim"]
REQUIRED_COUNTERS = ("exports_checked", "exports_after_other_spec", "repeated_exports", "pair_exports", "repeat_exports",
                     "repeat_extents_a_second_rounding_would_widen", "interpreter_flag_exports")

dt = _dt.datetime
# Together the specs use every option group (scale default/own, domain, labella, margin, labelPadding, latex, colour lists,
# border, textFn) so that state leaking through any of them is observable.  A and F are built from ONE options dict object
# (a caller re-using its dict; it passes no scale, so the two timelines must still not share one).
SPECS = {
    "A": {"data": [{"time": dt(2020, 1, 3, 12), "width": 40}, {"time": dt(2020, 1, 9), "width": 40, "text": "b"},
                   {"time": dt(2020, 1, 20, 18, 30), "width": 40}], "options": "SHARED"},
    "B": {"data": [{"time": dt(1991, 5, 5), "width": 40, "text": "x"}, {"time": dt(1993, 5, 5), "width": 40}, {"time": dt(1993, 6, 1), "width": 40},
                   {"time": dt(1998, 5, 5), "width": 40}],
          "options": {"direction": "up", "labella": {"maxPos": 100, "lineSpacing": 7}, "labelPadding": {"left": 9, "right": 1, "top": 4, "bottom": 6}}},
    "C": {"data": [{"time": 1, "width": 30}, {"time": 1.5, "width": 30, "text": "c"}, {"time": 9, "width": 30}],
          "options": {"direction": "left", "scale": "LinearScale", "latex": {"tickCross": True, "fontsize": "10pt"}}},
    "D": {"data": [{"time": dt(2021, 3, 14, 2, 30), "width": 50}, {"time": dt(2021, 3, 20), "width": 50}],
          "options": {"direction": "down", "domain": [dt(2021, 3, 1), dt(2021, 4, 1)], "showBorder": True,
                      "margin": {"left": 60, "right": 5, "top": 35, "bottom": 10}, "dotColor": ["#f00", "#00ff00"]}},
    "E": {"data": [{"time": 11, "width": 30}, {"time": 12.5, "width": 30}, {"time": 19, "width": 30, "text": "e"},
                   {"time": 12, "width": 42}, {"time": 12.25, "width": 55}, {"time": 13, "width": 47}, {"time": 13.5, "width": 30},
                   {"time": 14, "width": 61}, {"time": 12.75, "width": 30}],
          "options": {"direction": "up", "scale": "LinearScale", "labelTextColor": "#abc", "labella": {"maxPos": 260}}},
    "F": {"data": [{"time": dt(2005, 7, 1), "width": 60}, {"time": dt(2005, 7, 2, 6), "width": 60}, {"time": dt(2005, 9, 30), "width": 60}],
          "options": "SHARED"},
}
SHARED_OPTIONS = {"direction": "right", "initialWidth": 500}


def bounds(tier, seed):
    return {"specs": sorted(_specs(tier, seed)), "depth": 8 if tier == "quick" else 7,
            "ops": "quick: new(X, fixed back-end) export(X) per spec; thorough: new(X,svg) new(X,tex) export(X) per spec"}


def _specs(tier, seed):
    if tier == "thorough":
        return ["A", "B", "C", "D", "E", "F"]
    return [["A", "F", "C", "E", "B"], ["A", "F", "C", "E", "D"]][seed % 2]


def construct(spec, backend, shared=None):
    """shared: the caller's one options dict for the specs that re-use it (None: a fresh one)."""
    from labella.scale import LinearScale
    from labella.timeline import TimelineSVG, TimelineTex
    s = SPECS[spec]
    data = copy.deepcopy(s["data"])
    if s["options"] == "SHARED":
        opts = shared if shared is not None else copy.deepcopy(SHARED_OPTIONS)
    else:
        opts = copy.deepcopy(s["options"])
    if opts.get("scale") == "LinearScale":
        opts["scale"] = LinearScale()
    return (TimelineSVG if backend == "svg" else TimelineTex)(data, opts)


REF_SCRIPT = r'''
import sys, json
sys.path.insert(0, %(verif)r)
from mc import core
core.setup_env()
from mc.props import c10
tl = c10.construct(%(spec)r, %(backend)r)
out = tl.export()
if isinstance(out, bytes): out = out.decode("latin-1")
sys.stdout.write(json.dumps(out))
'''
_refs = {}


def reference(spec, backend, flags=()):
    """Export of the spec alone, in a fresh interpreter process (cached per worker).  flags: interpreter options of that
    process, e.g. ("-O",) - how the interpreter was started is not one of the timeline's data or options."""
    key = (spec, backend) + tuple(flags)
    if key not in _refs:
        env = dict(os.environ)
        env["PYTHONHASHSEED"] = "0"
        p = subprocess.run([sys.executable] + list(flags) + ["-c", REF_SCRIPT % {"verif": core.VERIF, "spec": spec, "backend": backend}],
                           capture_output=True, text=True, env=env, timeout=120)
        if p.returncode != 0:
            _refs[key] = ("ERR", p.stderr.strip().split("\n")[-1])
        else:
            _refs[key] = ("OK", json.loads(p.stdout))
    return _refs[key]


def replay_history(hist):
    """Fresh library, replay all ops.  -> (live instances, list of (op index, spec, backend, document))"""
    purge_labella()
    live, outs = {}, []
    shared = copy.deepcopy(SHARED_OPTIONS)
    for i, op in enumerate(hist):
        if op[0] == "new":
            live[op[1]] = (construct(op[1], op[2], shared), op[2])
        else:
            if op[1] not in live:
                continue
            tl, backend = live[op[1]]
            doc = tl.export()
            outs.append((i, op[1], backend, doc.decode("latin-1") if isinstance(doc, bytes) else doc))
    return live, outs


def check_history(hist, want_live=False):
    """-> (key, reason) | None ; judges only the LAST operation (earlier ones were judged on shorter histories)."""
    bad, live = _check_history(hist)
    return (bad, live) if want_live else bad


def _check_history(hist):
    try:
        with horizon(60.0):
            live, outs = replay_history(hist)
    except Hang:
        return ("HANG", "history %r did not return" % (hist,)), None
    except Exception as e:
        return ("EXC:" + type(e).__name__, "history %s raised %r" % (fmt(hist), e)), None
    if hist and hist[-1][0] == "exp" and outs and outs[-1][0] == len(hist) - 1:
        _, spec, backend, doc = outs[-1]
        st, ref = reference(spec, backend)
        if st != "OK":
            return ("C10:reference-failed", "spec %s alone in a fresh process failed: %s" % (spec, ref)), live
        if doc != ref:
            k = next((j for j, (a, b) in enumerate(zip(doc, ref)) if a != b), min(len(doc), len(ref)))
            return ("C10:export-differs", "history %s: the %s export of %s differs from the export of %s alone in a fresh process "
                    "(first difference at offset %d: %r vs %r)" % (fmt(hist), backend, spec, spec, k, doc[k:k + 40], ref[k:k + 40])), live
    return None, live


def fmt(hist):
    return ", ".join("new(%s,%s)" % (o[1], o[2]) if o[0] == "new" else "export(%s)" % o[1] for o in hist)


def state_fp(live):
    return fp_hash([{k: v[0] for k, v in sorted(live.items())}, {k: v[1] for k, v in live.items()}, labella_globals()])


def ops_for(specs, backends=None):
    """backends: None = both back-ends for every spec; else a fixed back-end per spec (quick tier)."""
    out = []
    for i, s in enumerate(specs):
        if backends is None:
            out += [("new", s, "svg"), ("new", s, "tex"), ("exp", s)]
        else:
            out += [("new", s, backends[i]), ("exp", s)]
    return out


# ---- pairs of default-scale timelines over a ladder of spans anchored near one calendar boundary: the tick unit of one
# (seconds ... years) must not influence the other
PAIR_BASE = dt(2021, 2, 1)
PAIR_SPANS = [40, 240, 3000, 18000, 97200, 3 * 86400, 20 * 86400, 100 * 86400, 1096 * 86400, 5479 * 86400]  # seconds
# multi-year extents on either side of the spans at which the year step switches (13.33, 28.57, 66.67 years for 10 ticks),
# two per whole-year bucket
PAIR_SPANS += [int(y * 365.25 * 86400) for y in (13.1, 13.6, 28.2, 28.9, 66.2, 66.9)]


def pair_specs():
    out = []
    for si, sp in enumerate(PAIR_SPANS):
        for ai, anchor in enumerate((PAIR_BASE - _dt.timedelta(seconds=sp + 4800), PAIR_BASE + _dt.timedelta(days=9))):
            out.append(("P%d%s" % (si, "ab"[ai]), [{"time": anchor, "width": 40}, {"time": anchor + _dt.timedelta(seconds=sp), "width": 40}]))
    return out


PAIR_SCRIPT = r'''
import sys, json
sys.path.insert(0, %(verif)r)
from mc import core
core.setup_env()
from mc.props import c10
out = {}
for name, data in c10.pair_specs():
    out[name] = c10.pair_export(data)
sys.stdout.write(json.dumps(out))
'''


def pair_export(data):
    from labella.timeline import TimelineSVG
    d = TimelineSVG(copy.deepcopy(data), {"direction": "right"}).export()
    return d.decode("latin-1")


_pair_refs = {}


def pair_references():
    """Reference export of every pair spec alone: one fresh interpreter process that purges and re-imports the
    library before each spec (20 separate processes per worker would cost ~3 s each)."""
    if not _pair_refs:
        env = dict(os.environ)
        env["PYTHONHASHSEED"] = "0"
        script = PAIR_SCRIPT.replace("out[name] = c10.pair_export(data)",
                                     "core.purge_labella(); out[name] = c10.pair_export(data)")
        p = subprocess.run([sys.executable, "-c", script % {"verif": core.VERIF}], capture_output=True, text=True, env=env, timeout=300)
        if p.returncode != 0:
            raise RuntimeError("pair reference process failed: " + p.stderr[-300:])
        _pair_refs.update(json.loads(p.stdout))
    return _pair_refs


# ---- repeated exports of one default-scale timeline over a grid of data extents: what an export leaves behind in the
# timeline's own scale (e.g. a domain rounded once more) shows in the next export, for the extents where it matters
REPEAT_STARTS = [dt(2020, 1, 1), dt(2020, 2, 29, 12), dt(2020, 12, 31, 23, 59, 30), dt(2021, 3, 14, 2, 30), dt(2019, 6, 15, 8, 45, 10),
                 dt(2000, 1, 1), dt(1999, 11, 28, 17), dt(1970, 1, 1), dt(1969, 7, 20, 20, 17, 40), dt(1904, 2, 28, 6),
                 dt(2038, 1, 19, 3, 14, 8), dt(2100, 2, 28, 23, 59, 59), dt(2024, 8, 5), dt(2023, 10, 29, 1, 30), dt(2016, 5, 1), dt(2011, 11, 11, 11, 11, 11)]


def repeat_cases(tier):
    from mc import timegrid
    spans = [sp for sp in timegrid.SPANS_MS if sp >= 1000]
    out = []
    for si, st in enumerate(REPEAT_STARTS if tier == "thorough" else REPEAT_STARTS[::2]):
        for sp in spans:
            for f in (1, 1.37, 0.73):  # off-ladder spans: the rounded extent may fall into the next coarser tick interval
                en = st + _dt.timedelta(milliseconds=int(sp * f))
                if en.year <= 2200:
                    out.append((st, en))
    return out


def _own_fmt(d):
    return "T" + d.strftime("%Y%m%d.%H%M%S")


def _own_scale_export(backend, data):
    from labella.scale import TimeScale
    from labella.timeline import TimelineSVG, TimelineTex
    cls = TimelineSVG if backend == "svg" else TimelineTex
    return cls(copy.deepcopy(data), {"direction": "up", "scale": TimeScale(fmt=_own_fmt)}).export()


def judge_repeat(st, en, backend, acc=None):
    from labella.scale import TimeScale
    from labella.timeline import TimelineSVG, TimelineTex
    cls = TimelineSVG if backend == "svg" else TimelineTex
    data = [{"time": st, "width": 40}, {"time": en, "width": 40, "text": "z"}, {"time": st + (en - st) / 3, "width": 40}]
    try:
        with horizon(60.0):
            tl = cls(copy.deepcopy(data), {"direction": "up"})
            docs = [tl.export() for _ in range(3)]
            ref = cls(copy.deepcopy(data), {"direction": "up"}).export()
            if acc is not None:
                s = TimeScale().domain([st, en]).nice()
                d1 = s.domain()
                if s.nice().domain() != d1:
                    acc.counters["repeat_extents_a_second_rounding_would_widen"] += 1
                    acc.nontriv += 1
    except Hang:
        return "HANG", "three exports of one timeline over [%s, %s] did not return" % (st, en)
    except Exception as e:
        return "EXC:" + type(e).__name__, "three exports of one timeline over [%s, %s] raised %r" % (st, en, e)
    # a second timeline over the same data whose options carry the caller's own scale (own tick format), exported after the
    # ones above, against the same timeline exported alone in a purged, re-imported library
    try:
        with horizon(60.0):
            own_after = _own_scale_export(backend, data)
            purge_labella()
            own_alone = _own_scale_export(backend, data)
    except Hang:
        return "HANG", "export of an own-scale timeline over [%s, %s] did not return" % (st, en)
    except Exception as e:
        return "EXC:" + type(e).__name__, "export of an own-scale timeline over [%s, %s] raised %r" % (st, en, e)
    if acc is not None:
        acc.counters["own_scale_after_default_scale_exports"] += 1
    if own_after != own_alone:
        return ("C10:export-differs", "data spanning [%s, %s] (%s): a timeline with the caller's own TimeScale(fmt=...) exported after "
                "default-scale timelines over the same data differs from the same timeline exported alone" % (st, en, backend))
    for k, d in enumerate(docs):
        if d != ref:
            return ("C10:repeat-export-differs", "data spanning [%s, %s] (%s): export #%d of one timeline differs from the "
                    "export of a fresh timeline with the same data" % (st, en, backend, k + 1))
    return None


def plan(tier, seed):
    n = len(pair_specs())
    return ([{"kind": "pairs", "first": i} for i in range(n)] + [{"kind": "repeat", "tier": tier, "mod": 8, "rem": r} for r in range(8)]
            + [{"kind": "interpreter", "specs": sorted(SPECS)[i::3]} for i in range(3)])


def run_shard(shard):
    from labella.timeline import TimelineSVG
    acc = Acc()
    if shard["kind"] == "interpreter":
        # the same spec alone in fresh interpreters started with and without optimisation flags: identical documents
        for spec in shard["specs"]:
            for backend in ("svg", "tex"):
                base = reference(spec, backend)
                for flags in (["-O"], ["-OO"]):
                    got = reference(spec, backend, flags)
                    acc.evals += 1
                    acc.states += 1
                    acc.trans += 1
                    acc.nontriv += 1
                    acc.counters["interpreter_flag_exports"] += 1
                    if got != base:
                        acc.violation({"interpreter": [spec, backend, flags]}, "C10:export-differs-with-interpreter-flag",
                                      "spec %s (%s) exported alone in a fresh interpreter started with %s differs from the same export "
                                      "without the flag (%s / %s)" % (spec, backend, " ".join(flags), str(got)[:80], str(base)[:80]),
                                      order=(2, spec, backend))
        acc.sample({"interpreter": [shard["specs"][0], "svg", ["-O"]]})
        return acc
    if shard["kind"] == "repeat":
        case = None
        for i, (st, en) in enumerate(repeat_cases(shard["tier"])):
            if i % shard["mod"] != shard["rem"]:
                continue
            backend = ("svg", "tex")[(i // shard["mod"]) % 2]
            case = {"repeat": [st, en], "backend": backend}
            bad = judge_repeat(st, en, backend, acc)
            acc.states += 1
            acc.evals += 4
            acc.trans += 4
            acc.counters["repeat_exports"] += 4
            if bad:
                acc.violation(case, bad[0], bad[1], order=(1, i))
        if case:
            acc.sample(case)
        return acc
    specs = pair_specs()
    refs = pair_references()
    nx, dx = specs[shard["first"]]
    for ny, dy in specs:
        acc.states += 1
        for order in ("new-new-exp", "exp-new-exp"):
            purge_labella()
            from labella.timeline import TimelineSVG
            try:
                with horizon(60.0):
                    x = TimelineSVG(copy.deepcopy(dx), {"direction": "right"})
                    if order == "exp-new-exp":
                        x.export()
                    y = TimelineSVG(copy.deepcopy(dy), {"direction": "right"})
                    got_y = y.export().decode("latin-1")
                    got_x = x.export().decode("latin-1")
            except Hang:
                acc.violation({"pair": [nx, ny], "order": order}, "HANG", "pair %s,%s did not return" % (nx, ny), order=(0, shard["first"]))
                continue
            except Exception as e:
                acc.violation({"pair": [nx, ny], "order": order}, "EXC:" + type(e).__name__, "pair %s,%s raised %r" % (nx, ny, e),
                              order=(0, shard["first"]))
                continue
            acc.evals += 2
            acc.trans += 2
            acc.counters["pair_exports"] += 2
            if nx != ny:
                acc.nontriv += 1
            for name, got in ((ny, got_y), (nx, got_x)):
                if got != refs[name]:
                    k = next((j for j, (a, b) in enumerate(zip(got, refs[name])) if a != b), 0)
                    acc.violation({"pair": [nx, ny], "order": order}, "C10:pair-export-differs",
                                  "timelines %s then %s (%s): the export of %s differs from its export alone in a fresh library "
                                  "(offset %d: %r vs %r)" % (nx, ny, order, name, k, got[k:k + 40], refs[name][k:k + 40]),
                                  order=(0, shard["first"]))
    purge_labella()
    acc.sample({"pair": [nx, ny], "order": "exp-new-exp"})
    return acc


def hist_init(tier, seed):
    specs = _specs(tier, seed)
    if tier == "quick":  # one back-end per spec, alternating, rotated by the seed; deeper histories
        backends = [("svg", "tex")[(i + seed) % 2] for i in range(len(specs))]
        return {"ctx": {"specs": specs, "backends": backends}, "roots": [[]], "depth": 8, "max_states": 5000}
    return {"ctx": {"specs": specs, "backends": None}, "roots": [[]], "depth": 7, "max_states": 200000}


def hist_expand(ctx, h, acc):
    """Try every enabled operation after history h; judge it; return new (fingerprint, history) pairs."""
    h = [tuple(o) for o in h]
    ops = ops_for(ctx["specs"], ctx.get("backends"))
    succ = []
    for op in ops:
        if op[0] == "exp" and not any(o[0] == "new" and o[1] == op[1] for o in h):
            continue
        nh = h + [op]
        bad, live = check_history(nh, want_live=True)
        acc.evals += 1
        acc.trans += 1
        if op[0] == "exp":
            acc.counters["exports_checked"] += 1
            last_new = max(i for i, o in enumerate(h) if o[0] == "new" and o[1] == op[1])
            if any(o[1] != op[1] for o in h[last_new + 1:]):
                acc.counters["exports_after_other_spec"] += 1
                acc.nontriv += 1
            if any(o == op for o in h[last_new + 1:]):
                acc.counters["repeated_exports"] += 1
        if bad:
            acc.violation({"hist": [list(o) for o in nh]}, bad[0], bad[1], order=(len(nh), ops.index(op)))
            continue  # a broken state is not expanded further
        succ.append((state_fp(live), [list(o) for o in nh]))
    if len(h) == 2:
        acc.sample({"hist": [list(o) for o in h]})
    purge_labella()
    return succ


def replay(case):
    if "interpreter" in case:
        spec, backend, flags = case["interpreter"]
        if reference(spec, backend, flags) != reference(spec, backend):
            return "C10:export-differs-with-interpreter-flag", "spec %s (%s) with %s differs" % (spec, backend, " ".join(flags))
        return None
    if "repeat" in case:
        return judge_repeat(case["repeat"][0], case["repeat"][1], case["backend"])
    if "pair" in case:
        specs = dict(pair_specs())
        refs = pair_references()
        nx, ny = case["pair"]
        purge_labella()
        from labella.timeline import TimelineSVG
        x = TimelineSVG(copy.deepcopy(specs[nx]), {"direction": "right"})
        if case["order"] == "exp-new-exp":
            x.export()
        y = TimelineSVG(copy.deepcopy(specs[ny]), {"direction": "right"})
        got_y = y.export().decode("latin-1")
        got_x = x.export().decode("latin-1")
        purge_labella()
        if got_y != refs[ny] or got_x != refs[nx]:
            return "C10:pair-export-differs", "pair %s then %s (%s) differs from the exports alone" % (nx, ny, case["order"])
        return None
    hist = [tuple(o) for o in case["hist"]]
    for k in range(1, len(hist) + 1):
        bad = check_history(hist[:k])
        if bad:
            return bad
    return None


def snippet(case):
    if "pair" in case:
        return "# two default-scale timelines %r built one after the other (see pair_specs in mc/props/c10.py)" % (case["pair"],)
    return "# history: %s\n# specs: see mc/props/c10.py SPECS; compare the last export with the same spec exported alone" % fmt(
        [tuple(o) for o in case["hist"]])
