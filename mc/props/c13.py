"""C13 - linear ticks are round, evenly spaced, complete, in-domain, uniquely labelled."""
import itertools
import math
from fractions import Fraction

from mc import lingrid
from mc.core import Acc, Hang, horizon

ID = "C13"
RULE = ("E-INPUT: every ordered pair of end points from {0, +-m x 10^e : m in 11 mantissas, e in -6..9 (quick: step 3)} that "
        "meets the statement's span conditions, plus a seeded mantissa set, x m in 1..100 and the default, through the real "
        "LinearScale().domain(..).ticks(m)/tickFormat(m); on every 5th domain also call sequences on one live scale (ticks, nice, ticks / ticks, domain, ticks / ticks, copy, nice / a tick iterator abandoned after its first element, then ticks again on this and on another scale) judged against the domain the scale then reports; domains with an end 1e-15 .. 1e-4 of a step beside a tick (magnitudes 1e-6..1e6); on every 7th domain the plain cases again under two process-wide settings an application may have chosen (a 4-digit decimal context, DEBUG logging enabled). Oracle: step of form {1,2,5}x10^k, increasing, equal gaps, multiples "
        "of the step, inside the domain, complete at both ends, count bounds, distinct texts that read back. "
        "Non-trivial: >= 2 ticks.")
ASSUMPTIONS = ["float tolerances: 1e-6 of a step for gap equality/multiples/completeness, 1e-9 step for in-domain, 1e-3 step for read-back"]
REQUIRED_COUNTERS = ("tick_sets", "reversed_domains", "step_1", "step_2", "step_5", "history_sequences", "threshold_cases", "ambient_setting_cases", "near_tick_end_cases")
EPS = 2.220446049250313e-16
TICK_CAP = 10000


def bounds(tier, seed):
    return {"values": len(lingrid.values(tier)), "m": "1..100 + default", "seeded_values": lingrid.seeded_values(seed)[:5]}


def judge(a, b, m, acc=None, scale=None):
    """scale: a live scale (history slice) whose reported domain is [a, b]; None = a fresh scale."""
    from labella.scale import LinearScale
    try:
        with horizon(10.0):
            s = LinearScale().domain([a, b]) if scale is None else scale
            tk = [float(t) for t in itertools.islice(s.ticks(m), TICK_CAP + 1)]
            if len(tk) > TICK_CAP:
                return "C13:unbounded", "ticks(%r) on [%r, %r] yields more than %d ticks" % (m, a, b, TICK_CAP)
            fmt = s.tickFormat(m)
            texts = [fmt(t) for t in tk]
    except Hang:
        return "HANG", "ticks(%r) on [%r, %r] did not return" % (m, a, b)
    except Exception as e:
        return "EXC:" + type(e).__name__, "ticks/tickFormat(%r) on [%r, %r] raised %r" % (m, a, b, e)
    mm = 10 if m is None else m
    lo, hi = min(a, b), max(a, b)
    n = len(tk)
    where = "ticks(%r) on [%r, %r]%s" % (m, a, b, "" if scale is None else " (live scale, after earlier ticks/nice/domain calls)")
    if acc is not None:
        acc.counters["tick_sets"] += 1
        if a > b:
            acc.counters["reversed_domains"] += 1
        acc.outcome(n)
    if not (math.floor(0.57 * mm) <= n <= 1.43 * mm + 1):
        return "C13:count", "%s: %d ticks, allowed %d..%d" % (where, n, math.floor(0.57 * mm), int(1.43 * mm + 1))
    if any(not y > x for x, y in zip(tk, tk[1:])):
        return "C13:not-increasing", "%s: %r" % (where, tk[:5])
    if len(set(texts)) != n:
        return "C13:duplicate-labels", "%s: texts %r" % (where, texts[:6])
    if n < 2:
        if acc is not None:
            acc.counters["fewer_than_2_ticks"] += 1
        for t in tk:
            if not (lo - 1e-9 * max(abs(lo), abs(hi)) <= t <= hi + 1e-9 * max(abs(lo), abs(hi))):
                return "C13:outside-domain", "%s: tick %r" % (where, t)
        return None
    if acc is not None:
        acc.nontriv += 1
    step = (tk[-1] - tk[0]) / (n - 1)
    k = math.floor(math.log10(step) + 1e-9)
    mant = step / 10 ** k
    lead = min((1, 2, 5, 10), key=lambda c: abs(mant - c))
    if abs(mant - lead) > 1e-9 * lead + 4 * lead * EPS * max(abs(lo), abs(hi)) / step:  # measured mean gap: n additions at magnitude mag
        return "C13:step-form", "%s: step %r is not 1, 2 or 5 times a power of ten" % (where, step)
    if acc is not None:
        acc.counters["step_%d" % (1 if lead == 10 else lead)] += 1
    mag = max(abs(lo), abs(hi))
    # from here on use the exact step lead x 10^k (correctly rounded), not the measured mean gap: the
    # measured value carries the float error of the end ticks, which a quotient of 1e5 would amplify.
    # Float allowance: the generator accumulates n additions at magnitude mag.
    step = float(Fraction(1 if lead == 10 else lead) * Fraction(10) ** (k + 1 if lead == 10 else k))
    fl = 2 * EPS * mag * (n + 4)
    tol = 1e-6 * step + fl
    for x, y in zip(tk, tk[1:]):
        if abs((y - x) - step) > tol:
            return "C13:uneven", "%s: gap %r vs step %r" % (where, y - x, step)
    for t in tk:
        q = t / step
        if abs(q - round(q)) * step > tol:
            return "C13:not-multiple", "%s: tick %r is not a multiple of the step %r" % (where, t, step)
    tin = 1e-9 * step + fl
    if tk[0] < lo - tin or tk[-1] > hi + tin:
        return "C13:outside-domain", "%s: first %r last %r" % (where, tk[0], tk[-1])
    if tk[0] - step >= lo + tol or tk[-1] + step <= hi - tol:
        return ("C13:incomplete", "%s: a further multiple of %r fits inside the domain (first %r, last %r)"
                % (where, step, tk[0], tk[-1]))
    for t, txt in zip(tk, texts):
        try:
            v = float(txt)
        except ValueError:
            return "C13:label-unreadable", "%s: label %r of tick %r" % (where, txt, t)
        if abs(v - t) > 1e-3 * step + fl:
            return "C13:label-wrong", "%s: label %r reads back as %r for tick %r (step %r)" % (where, txt, v, t, step)
    return None


HIST_MS = (None, 2, 5, 10)


def history_cases(a, b):
    """Call sequences on ONE scale; the last ticks() must be right for the domain the scale then reports."""
    from labella.scale import LinearScale
    for m in HIST_MS:
        for m2 in (None, 3):
            yield ("ticks-nice-ticks", m, m2)
        yield ("ticks-domain-ticks", m, None)
        yield ("ticks-neardomain-ticks", m, None)
        yield ("ticks-copy-nice", m, None)
        yield ("abandoned-ticks", m, None)
    yield ("stale-formatter", 50, 5)
    yield ("stale-formatter", 20, 2)


def run_history(a, b, kind, m, m2):
    from labella.scale import LinearScale
    if kind == "ticks-nice-ticks":
        s = LinearScale().domain([a, b])
        list(itertools.islice(s.ticks(m), TICK_CAP))
        s.nice(m2) if m2 is not None else s.nice()
        return [s]
    if kind == "ticks-domain-ticks":
        s = LinearScale().domain([b * 3 + 1, a - 7])
        list(itertools.islice(s.ticks(m), TICK_CAP))
        s.tickFormat(m)
        s.domain([a, b])
        return [s]
    if kind == "ticks-neardomain-ticks":
        # a domain shifted by a third of the span first (for narrow domains the two agree to many digits)
        sh = (b - a) * 0.37
        s = LinearScale().domain([a + sh, b + sh])
        list(itertools.islice(s.ticks(m), TICK_CAP))
        s.tickFormat(m)
        s.domain([a, b])
        return [s]
    if kind == "abandoned-ticks":
        # the caller takes one tick and drops the rest (or empties the list it was handed): the result is the caller's
        # own; the same request must be answered in full afterwards, by this scale and by another one over the same domain
        # (on a domain of its own, so that the abandoned request is the first one for these end points in this process)
        sh = (b - a) * 0.0131
        a, b = a + sh, b + sh
        s = LinearScale().domain([a, b])
        got = s.ticks(m)
        if isinstance(got, list):
            del got[1:]
        else:
            next(iter(got), None)
            if hasattr(got, "close"):
                got.close()
        del got
        return [s, LinearScale().domain([a, b])]
    s = LinearScale().domain([a, b])
    list(itertools.islice(s.ticks(m), TICK_CAP))
    c = s.copy()
    s.nice()
    return [s, c]


def judge_stale_formatter(a, b, m, m2):
    """A formatter handed out for m must keep formatting the m-ticks after the scale was asked for another one."""
    from labella.scale import LinearScale
    try:
        s = LinearScale().domain([a, b])
        tk = [float(t) for t in itertools.islice(s.ticks(m), TICK_CAP)]
        fmt = s.tickFormat(m)
        before = [fmt(t) for t in tk]
        list(itertools.islice(s.ticks(m2), TICK_CAP))
        s.tickFormat(m2)
        after = [fmt(t) for t in tk]
    except Exception as e:
        return "EXC:" + type(e).__name__, "stale-formatter sequence on [%r, %r] raised %r" % (a, b, e)
    if after != before:
        return ("C13:formatter-changed", "the formatter from tickFormat(%d) on [%r, %r] printed %r, and after tickFormat(%d) prints %r"
                % (m, a, b, before[:4], m2, after[:4]))
    return None


def judge_history(a, b, kind, m, m2, acc=None):
    if kind == "stale-formatter":
        return judge_stale_formatter(a, b, m, m2)
    try:
        scales = run_history(a, b, kind, m, m2)
    except Exception as e:
        return "EXC:" + type(e).__name__, "%s on [%r, %r] raised %r" % (kind, a, b, e)
    for s in scales:
        d = s.domain()
        if d[0] == d[1]:
            continue
        bad = judge(float(d[0]), float(d[1]), m, acc, scale=s)
        if bad:
            return bad[0], "%s: %s" % (kind, bad[1])
    return None


CRITICAL = (1 / 0.15, 1 / 0.35, 1 / 0.75)  # span / (m * 10^k) at which the step switches between 1, 2, 5, 10


def threshold_domains(m):
    """Domains whose span per requested tick sits on and just beside the three switching thresholds, with ends on
    and off the tick grid (where the tick count reaches its extremes)."""
    for crit in CRITICAL:
        for rel in (0.0, 1e-9, -1e-9, 1e-3, -1e-3, 1e-2, -1e-2, 4e-3):
            for e in (-2, 0, 3):
                span = m * crit * (1 + rel) * 10.0 ** e
                for start in (0.0, -0.25 * span / m, 7.0 * 10.0 ** e):
                    yield start, start + span


def near_tick_domains():
    """Domains one of whose ends lies a hair inside or outside a tick of the step that the rule picks for them: the first
    and the last tick are decided by a ceil and a floor of end / step, where slack terms are easily mis-scaled.
    Magnitudes 1e-6 .. 1e6, spans 1e-3 .. 10 of the magnitude, offsets from 1 ulp-ish (absolute 1e-15, relative 1e-12) to
    1e-4 of a step, on both sides, at either end."""
    for mag in (1e-6, 1e-3, 1.0, 1e3, 1e6):
        for rel_span in (9.5e-4, 0.95, 9.5):
            span = mag * rel_span
            for m in (10, 100):
                k = math.floor(math.log10(span / m))
                for lead in (1, 2, 5):
                    step = lead * 10.0 ** k
                    base = math.floor(mag / step) * step
                    for off in (1e-15, -1e-15, 1e-12 * step, -1e-12 * step, 1e-10 * step, 1e-8 * step, -1e-8 * step, 1e-6 * step,
                                1e-4 * step, -1e-4 * step):
                        yield base + off, base + off + span, m          # lower end next to a tick
                        yield base - span + off, base + off, m          # upper end next to a tick
                        yield base + off + span, base + off, m          # reversed


AMBIENT = ("decimal-context", "debug-logging")


from mc.ambient import setting as ambient  # noqa: E402


def plan(tier, seed):
    n = 64 if tier == "quick" else 256
    shards = [{"vals": "grid", "tier": tier, "mod": n, "rem": r} for r in range(n)]
    shards.append({"vals": "seed", "seed": seed, "mod": 1, "rem": 0})
    for m0 in range(1, 101, 10):
        shards.append({"vals": "threshold", "ms": list(range(m0, min(101, m0 + 10)))})
    shards.append({"vals": "nearticks"})
    return shards


def run_shard(shard):
    acc = Acc()
    if shard["vals"] == "nearticks":
        for i, (a, b, m) in enumerate(near_tick_domains()):
            if not lingrid.admissible(a, b):
                continue
            bad = judge(a, b, m, acc)
            acc.evals += 1
            acc.states += 1
            acc.trans += 1
            acc.counters["near_tick_end_cases"] += 1
            if bad:
                acc.violation({"a": a, "b": b, "m": m}, bad[0], bad[1], order=(5, i, m))
        acc.sample({"a": a, "b": b, "m": m})
        return acc
    if shard["vals"] == "threshold":
        for m in shard["ms"]:
            for a, b in threshold_domains(m):
                for x, y in ((a, b), (b, a)):
                    bad = judge(x, y, m, acc)
                    acc.evals += 1
                    acc.states += 1
                    acc.trans += 1
                    acc.counters["threshold_cases"] += 1
                    if bad:
                        acc.violation({"a": x, "b": y, "m": m}, bad[0], bad[1], order=(3, m, 0))
        acc.sample({"a": a, "b": b, "m": m})
        return acc
    vals = lingrid.values(shard["tier"]) if shard["vals"] == "grid" else lingrid.seeded_values(shard["seed"])
    for i, (a, b) in enumerate(lingrid.pairs(vals)):
        if i % shard["mod"] != shard["rem"]:
            continue
        acc.states += 1
        for m in lingrid.MS:
            bad = judge(a, b, m, acc)
            acc.evals += 1
            acc.trans += 1
            if bad:
                acc.violation({"a": a, "b": b, "m": m}, bad[0], bad[1], order=(0 if shard["vals"] == "grid" else 1, i, m or 0))
        if i % 7 == 3:  # every 7th domain also under two process-wide settings an application may have chosen
            for kind in AMBIENT:
                for m in lingrid.MS:
                    with ambient(kind):
                        bad = judge(a, b, m, None)
                    acc.evals += 1
                    acc.trans += 1
                    acc.counters["ambient_setting_cases"] += 1
                    if bad:
                        acc.violation({"a": a, "b": b, "m": m, "ambient": kind}, bad[0] + ":" + kind, bad[1] + " (under " + kind + ")",
                                      order=(4, i, m or 0))
        if i % 5 == 0:  # history slice on every 5th domain
            for kind, m, m2 in history_cases(a, b):
                bad = judge_history(a, b, kind, m, m2, acc)
                acc.evals += 1
                acc.trans += 1
                acc.counters["history_sequences"] += 1
                if bad:
                    acc.violation({"a": a, "b": b, "m": m, "hist": kind, "m2": m2}, bad[0], bad[1], order=(2, i, m or 0))
    acc.sample({"a": a, "b": b, "m": 7})
    return acc


def replay(case):
    if case.get("ambient"):
        with ambient(case["ambient"]):
            bad = judge(case["a"], case["b"], case["m"])
        return (bad[0] + ":" + case["ambient"], bad[1]) if bad else None
    if case.get("hist"):
        return judge_history(case["a"], case["b"], case["hist"], case["m"], case.get("m2"))
    return judge(case["a"], case["b"], case["m"])


def snippet(case):
    return ("from labella.scale import LinearScale\ns=LinearScale().domain([%r, %r])\nt=list(s.ticks(%r)); print(t)\n"
            "print(list(map(s.tickFormat(%r), t)))" % (case["a"], case["b"], case["m"], case["m"]))
