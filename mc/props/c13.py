"""C13 - linear ticks are round, evenly spaced, complete, in-domain, uniquely labelled."""
import math

from mc import lingrid
from mc.core import Acc, Hang, horizon

ID = "C13"
RULE = ("E-INPUT: every ordered pair of end points from {0, +-m x 10^e : m in 11 mantissas, e in -6..9 (quick: step 3)} that "
        "meets the statement's span conditions, plus a seeded mantissa set, x m in 1..100 and the default, through the real "
        "LinearScale().domain(..).ticks(m)/tickFormat(m). Oracle: step of form {1,2,5}x10^k, increasing, equal gaps, multiples "
        "of the step, inside the domain, complete at both ends, count bounds, distinct texts that read back. "
        "Non-trivial: >= 2 ticks.")
ASSUMPTIONS = ["float tolerances: 1e-6 of a step for gap equality/multiples/completeness, 1e-9 step for in-domain, 1e-3 step for read-back"]
REQUIRED_COUNTERS = ("tick_sets", "reversed_domains", "step_1", "step_2", "step_5")
EPS = 2.220446049250313e-16


def bounds(tier, seed):
    return {"values": len(lingrid.values(tier)), "m": "1..100 + default", "seeded_values": lingrid.seeded_values(seed)[:5]}


def judge(a, b, m, acc=None):
    from labella.scale import LinearScale
    try:
        with horizon(10.0):
            s = LinearScale().domain([a, b])
            tk = [float(t) for t in s.ticks(m)]
            fmt = s.tickFormat(m)
            texts = [fmt(t) for t in tk]
    except Hang:
        return "HANG", "ticks(%r) on [%r, %r] did not return" % (m, a, b)
    except Exception as e:
        return "EXC:" + type(e).__name__, "ticks/tickFormat(%r) on [%r, %r] raised %r" % (m, a, b, e)
    mm = 10 if m is None else m
    lo, hi = min(a, b), max(a, b)
    n = len(tk)
    where = "ticks(%r) on [%r, %r]" % (m, a, b)
    if acc is not None:
        acc.counters["tick_sets"] += 1
        if a > b:
            acc.counters["reversed_domains"] += 1
        acc.outcome(n)
    if not (math.floor(0.57 * mm) <= n <= 1.43 * mm + 1):
        return "C13:count", "%s: %d ticks, allowed %d..%d" % (where, n, math.floor(0.57 * mm), int(1.43 * mm + 1))
    if any(not y > x for x, y in zip(tk, tk[1:])):
        return "C13:not-increasing", "%s: %r" % (where, tk[:5])
    if len(set(texts)) != n:
        return "C13:duplicate-labels", "%s: texts %r" % (where, texts[:6])
    if n < 2:
        if acc is not None:
            acc.counters["fewer_than_2_ticks"] += 1
        for t in tk:
            if not (lo - 1e-9 * max(abs(lo), abs(hi)) <= t <= hi + 1e-9 * max(abs(lo), abs(hi))):
                return "C13:outside-domain", "%s: tick %r" % (where, t)
        return None
    if acc is not None:
        acc.nontriv += 1
    step = (tk[-1] - tk[0]) / (n - 1)
    k = math.floor(math.log10(step) + 1e-9)
    mant = step / 10 ** k
    lead = min((1, 2, 5, 10), key=lambda c: abs(mant - c))
    if abs(mant - lead) > 1e-9 * lead + 1e-6 * max(abs(lo), abs(hi)) / step * EPS * 1e6:
        return "C13:step-form", "%s: step %r is not 1, 2 or 5 times a power of ten" % (where, step)
    if acc is not None:
        acc.counters["step_%d" % (1 if lead == 10 else lead)] += 1
    mag = max(abs(lo), abs(hi))
    tol = 1e-6 * step + 8 * EPS * mag * n
    for x, y in zip(tk, tk[1:]):
        if abs((y - x) - step) > tol:
            return "C13:uneven", "%s: gap %r vs step %r" % (where, y - x, step)
    for t in tk:
        q = t / step
        if abs(q - round(q)) * step > tol:
            return "C13:not-multiple", "%s: tick %r is not a multiple of the step %r" % (where, t, step)
    tin = 1e-9 * step + 8 * EPS * mag
    if tk[0] < lo - tin or tk[-1] > hi + tin:
        return "C13:outside-domain", "%s: first %r last %r" % (where, tk[0], tk[-1])
    if tk[0] - step >= lo + tol or tk[-1] + step <= hi - tol:
        return ("C13:incomplete", "%s: a further multiple of %r fits inside the domain (first %r, last %r)"
                % (where, step, tk[0], tk[-1]))
    for t, txt in zip(tk, texts):
        try:
            v = float(txt)
        except ValueError:
            return "C13:label-unreadable", "%s: label %r of tick %r" % (where, txt, t)
        if abs(v - t) > 1e-3 * step + 8 * EPS * mag * n:
            return "C13:label-wrong", "%s: label %r reads back as %r for tick %r (step %r)" % (where, txt, v, t, step)
    return None


def plan(tier, seed):
    n = 64 if tier == "quick" else 256
    shards = [{"vals": "grid", "tier": tier, "mod": n, "rem": r} for r in range(n)]
    shards.append({"vals": "seed", "seed": seed, "mod": 1, "rem": 0})
    return shards


def run_shard(shard):
    acc = Acc()
    vals = lingrid.values(shard["tier"]) if shard["vals"] == "grid" else lingrid.seeded_values(shard["seed"])
    for i, (a, b) in enumerate(lingrid.pairs(vals)):
        if i % shard["mod"] != shard["rem"]:
            continue
        acc.states += 1
        for m in lingrid.MS:
            bad = judge(a, b, m, acc)
            acc.evals += 1
            acc.trans += 1
            if bad:
                acc.violation({"a": a, "b": b, "m": m}, bad[0], bad[1], order=(0 if shard["vals"] == "grid" else 1, i, m or 0))
    acc.sample({"a": a, "b": b, "m": 7})
    return acc


def replay(case):
    return judge(case["a"], case["b"], case["m"])


def snippet(case):
    return ("from labella.scale import LinearScale\ns=LinearScale().domain([%r, %r])\nt=list(s.ticks(%r)); print(t)\n"
            "print(list(map(s.tickFormat(%r), t)))" % (case["a"], case["b"], case["m"], case["m"]))
