"""C06 - a layout is a pure function of the labels and options.

E-HIST: level-synchronous BFS over set-labels / re-present / compute /
re-configure call histories on one Force engine (differential oracle: a fresh
engine).  E-INPUT: every permutation of the input list."""
import itertools

from mc import layout
from mc.core import Acc, Hang, fp_hash, horizon, labella_globals, purge_labella

ID = "C06"
RULE = ("E-HIST: every history up to depth 5 (thorough 8) of nodes(S_i) for 4 label sets / re-presenting the same node objects "
        "reversed or rotated / compute() / set_options(cfg_j) for 4 option dicts / creating and running ANOTHER engine with "
        "different options (3 variants, one with the lineSpacing option) / letting another engine lay out the SAME node objects / running a stand-alone Distributor over them / letting another engine lay out clones of them (which must leave the first engine's layout and layering untouched) / continuing with clones / appending a label to the caller's list on one real Force engine, replayed on fresh "
        "objects, states deduplicated by a fingerprint of the engine + node graph (stubs, aliasing); at every compute() the "
        "label -> (layer, position) map must equal that of a fresh engine with the accumulated options and fresh sorted nodes, "
        "and the engine's node list must still be exactly the caller's labels. E-INPUT: every permutation (n<=3; n=4: 6 of 24 "
        "quick, all thorough) of every label multiset (equal positions => equal widths) x engine configs gives the same map; "
        "other multisets: same order twice => same result; all 720 orders of three 6-label sets with one-decimal widths whose total sits on the split threshold. Non-trivial: a compute() on stale state (after an earlier compute or "
        "re-presentation) with a displaced label / a permutation that changes the input order of a conflicting set.")
ASSUMPTIONS = ["labels are compared as multisets of (ideal position, width) -> (layer, position)",
               "label sets in the history alphabet satisfy the statement's proviso (equal position => equal width)"]
REQUIRED_COUNTERS = ("computes_checked", "recomputes_on_stale_state", "perm_cases", "perm_nontrivial")

SETS = [[(0, 4), (10, 4)], [(1, 4), (1.5, 4), (2, 1)], [(0, 4), (1, 4), (1, 4), (2.5, 1), (6, 4)], [(3, 4), (3, 4), (3, 4), (3.5, 1)]]
CFG = [{"maxPos": 10}, {"maxPos": None}, {"algorithm": "simple", "maxPos": 9}, {"nodeSpacing": 1.5, "stubWidth": 2},
       {"algorithm": "none", "minPos": 0, "maxPos": 40},
       {"minPos": 0, "maxPos": 30, "layerWidth": 30}]  # a caller-supplied layerWidth (Force.metric needs the key) next to bounds
OTHER = [{"maxPos": 7, "density": 0.4, "nodeSpacing": 0, "stubWidth": 0, "algorithm": "simple"}, {"algorithm": "none", "maxPos": 50},
         {"lineSpacing": 9, "maxPos": 10}]
OPS = ([("N", i) for i in range(len(SETS))] + [("P", "rev"), ("P", "rot"), ("C", None)] + [("O", j) for j in range(len(CFG))]
       + [("E", j) for j in range(len(OTHER))] + [("X", 0), ("X", 2), ("A", None), ("S", None), ("K", None), ("Y", 1), ("Y", 0)])


def bounds(tier, seed):
    return {"history_depth": 5 if tier == "quick" else 8, "label_sets": SETS + [_seed_set(seed)], "configs": CFG,
            "permutations": "n<=3 all; n=4: %s" % ("6 of 24, 5 configs" if tier == "quick" else "all 24, all configs")}


def _seed_set(seed):
    return [[(2, 4), (2.5, 4), (3, 4), (9, 1)], [(5, 1), (5, 1), (5.5, 4)], [(0, 4), (0.5, 1), (6, 4), (6, 4)],
            [(1, 1), (2, 1), (3, 1), (3, 1), (4, 4)]][seed % 4]


def build(hist, sets):
    from labella.force import Force
    from labella.node import Node
    f = Force()
    nodes, acc = [], {}
    others = []  # other live engines: a layout must not depend on them
    for op, a in hist:
        if op == "E":
            g = Force(dict(OTHER[a]))
            g.nodes([Node(p, w) for p, w in sets[1]])
            g.compute()
            others.append(g)
            continue
        if op == "X":  # another engine lays out the SAME node objects (they come back with its stubs/positions)
            if nodes:
                g = Force(dict(OTHER[a]))
                g.nodes(nodes)
                g.compute()
                others.append(g)
            continue
        if op == "Y":  # another engine lays out CLONES of the labels: the engine that owns the originals is not concerned
            if nodes:
                g = Force(dict(OTHER[a]))
                g.nodes([n.clone() for n in nodes])
                g.compute()
                others.append(g)
            continue
        if op == "S":  # the caller runs a stand-alone Distributor over the same node objects (stubs, no layerIndex)
            if nodes:
                from labella.distributor import Distributor
                Distributor({"layerWidth": 8, "density": 0.5, "stubWidth": 2}).distribute(list(nodes))
            continue
        if op == "K":  # the caller continues with clones of the (possibly laid-out) labels
            if nodes:
                nodes = [n.clone() for n in nodes]
                f.nodes(nodes)
            continue
        if op == "A":  # the caller appends a label to the list it handed to nodes()
            if nodes and not any(n.idealPos == 7.5 for n in nodes):
                nodes.append(Node(7.5, 4))
            continue
        if op == "N":
            nodes = [Node(p, w) for p, w in sets[a]]
            f.nodes(nodes)
        elif op == "P":
            if nodes:
                nodes = list(reversed(nodes)) if a == "rev" else nodes[1:] + nodes[:1]
                f.nodes(nodes)
        elif op == "C":
            f.compute()
        elif op == "O":
            f.set_options(dict(CFG[a]))
            acc.update(CFG[a])
    return f, nodes, acc, others


def result(nodes):
    return sorted((n.idealPos, n.width, n.layerIndex, n.currentPos) for n in nodes)


def engine_view(f, nodes):
    """What the owner of engine f can observe: its labels' layout, its layering, and whether that layering is well formed."""
    from mc.props import c04
    try:
        layers = [list(l) for l in f.getLayers()]
    except Exception as e:
        return (result(nodes), "getLayers raised " + type(e).__name__)
    while layers and not layers[-1]:
        layers.pop()
    shape = [[(x.idealPos, x.width, x.isStub(), x.currentPos) for x in l] for l in layers]
    bad = c04.check_structure(layers, nodes, f.distributor.options["stubWidth"]) if layers else None
    return (result(nodes), shape, bad[0] if bad else None)


def reference(labels, acc):
    from labella.force import Force
    from labella.node import Node
    f = Force(dict(acc))
    ns = [Node(p, w) for p, w in sorted(labels)]
    f.nodes(ns)
    f.compute()
    return result(ns)


_PRISTINE = [None]
_REFS = {}


def _load():
    import labella.distributor, labella.force, labella.node, labella.removeOverlap, labella.vpsc  # noqa: F401


def ensure_pristine(acc=None):
    """Every replay starts from the library's import-time module state.  Cheap test (fingerprint of all labella
    module/class globals); only if a previous execution changed that state are the modules purged and re-imported."""
    if _PRISTINE[0] is None:
        purge_labella()
        _load()
        _PRISTINE[0] = fp_hash(labella_globals())
        return
    if fp_hash(labella_globals()) != _PRISTINE[0]:
        purge_labella()
        _load()
        if acc is not None:
            acc.counters["module_state_was_modified"] += 1


def reference_cached(labels, acc_opts):
    """The fresh-engine layout, computed once per (labels, options) from the pristine module state."""
    key = (tuple(sorted(labels)), tuple(sorted((k, repr(v)) for k, v in acc_opts.items())))
    if key not in _REFS:
        ensure_pristine()
        _REFS[key] = reference(labels, acc_opts)
    return _REFS[key]


def check_history(hist, sets, counters=None):
    """Judge the last op of hist. -> ((key, reason)|None, (force, nodes)|None)"""
    try:
        with horizon(120.0):
            ensure_pristine(counters)
            f, nodes, acc, others = build(hist, sets)
            if hist and hist[-1][0] == "C" and nodes:
                got = result(nodes)
                ref = reference_cached([(n.idealPos, n.width) for n in nodes], acc)
                if got != ref:
                    return ("C06:history-differs", "after %s the layout (pos,width,layer,position) is %r, a fresh engine gives %r"
                            % (fmt(hist), got, ref)), None
                held = f.nodes()
                if sorted(map(id, held)) != sorted(map(id, nodes)) or any(n.isStub() for n in held):
                    return ("C06:node-list-changed", "after %s the engine's node list is no longer the caller's labels" % fmt(hist)), None
            if hist and hist[-1][0] in ("Y", "E") and nodes:
                # work done by another engine on its own labels (or on clones) leaves this engine's state as it was
                after = engine_view(f, nodes)
                f0, nodes0, _, _ = build(hist[:-1], sets)
                before = engine_view(f0, nodes0)
                if counters is not None:
                    counters.counters["other_engine_ops_checked"] += 1
                if before != after:
                    return ("C06:other-engine-interferes", "after %s the first engine's layout/layering is %r; before the last "
                            "operation it was %r" % (fmt(hist), after, before)), None
    except Hang:
        return ("HANG", "history %s did not return" % fmt(hist)), None
    except Exception as e:
        return ("EXC:" + type(e).__name__, "history %s raised %r" % (fmt(hist), e)), None
    return None, (f, nodes, others)


def fmt(hist):
    return " ".join("%s(%s)" % (o, a) if a is not None else o for o, a in hist)


def hist_init(tier, seed):
    return {"ctx": {"sets": SETS[:3] + [_seed_set(seed)] if seed % 2 else SETS}, "roots": [[]], "depth": 5 if tier == "quick" else 8,
            "max_states": 60000 if tier == "quick" else 5000000}


def hist_expand(ctx, h, acc):
    h = [tuple(o) for o in h]
    succ = []
    for oi, op in enumerate(OPS):
        if op[0] in ("P", "X", "A", "S", "K", "Y") and not any(o[0] == "N" for o in h):
            continue
        nh = h + [op]
        bad, st = check_history(nh, ctx["sets"], acc)
        acc.evals += 1
        acc.trans += 1
        if op[0] == "C" and any(o[0] == "N" for o in h):
            acc.counters["computes_checked"] += 1
            lastN = max(i for i, o in enumerate(h) if o[0] == "N")
            if any(o[0] in ("C", "P") for o in h[lastN:]) or any(o[0] == "C" for o in h):
                acc.counters["recomputes_on_stale_state"] += 1
                if st and any(abs(n.currentPos - n.idealPos) > 0.5 for n in st[1]):
                    acc.nontriv += 1
        if bad:
            acc.violation({"hist": [list(o) for o in nh], "sets": ctx["sets"]}, bad[0], bad[1], order=(len(nh), oi))
            continue
        succ.append((fp_hash([st[0], st[1], [g.options for g in st[2]], [g.distributor.options for g in st[2]]]),
                     [list(o) for o in nh]))
    if len(h) == 3:
        acc.sample({"hist": [list(o) for o in h]})
    return succ


# ------------------------------------------------------------------ permutations
def proviso(labels):
    w = {}
    for p, wd in labels:
        if w.setdefault(p, wd) != wd:
            return False
    return True


def layout_map(labels, opts, order):
    f, nodes = layout.run_engine(labels, opts, order)
    return result(nodes)


# widths with one decimal whose total, with 5 spacings of 3, is exactly the budget 0.85 * 100 "on paper": the split
# decision is a float sum compared with a threshold and must not depend on the input order
NONDYADIC = [
    ([(5, 14.1), (20.5, 13.3), (33, 10.7), (51.25, 12.2), (64, 9.9), (80, 9.8)], {"maxPos": 100}),
    ([(5, 14.1), (20.5, 13.3), (33, 10.7), (51.25, 12.2), (64, 9.9), (80, 9.9)], {"maxPos": 100}),
    ([(1, 0.1), (2, 0.2), (3.3, 0.3), (7, 0.7), (9, 1.1), (11, 0.6)], {"maxPos": 20, "density": 0.9, "nodeSpacing": 3}),
]


ULP_SETS = [
    [(5, 47.3), (20.5, 52.1), (33, 38.7), (51.25, 61.9), (64, 44.6), (80, 50.2)],
    [(1, 87.0), (2.5, 20.4), (7, 74.9), (11, 77.4), (12, 82.0), (40, 71.8)],
    [(3, 0.1), (4, 0.7), (9, 0.3), (10, 1.9), (17, 2.3), (30, 0.6)],
]


def ulp_window_configs(labels, spacing=3):
    """Budgets that fall inside the float-rounding window of the required width: the width is a float sum, its value
    depends on the order of the terms; every distinct value of that sum (over all input orders) is used as the budget
    (density 1, layer width = that value).  The layout must not depend on the input order for any of them."""
    totals = set()
    for perm in itertools.permutations(range(len(labels))):
        t = 0
        for i in perm:
            t += labels[i][1] + spacing
        totals.add(t - spacing)
    return [{"minPos": 0, "maxPos": t, "density": 1.0, "nodeSpacing": spacing} for t in sorted(totals)]


def plan(tier, seed):
    n = 48 if tier == "quick" else 128
    shards = [{"kind": "perm", "tier": tier, "mod": n, "rem": r} for r in range(n)]
    for k in range(len(NONDYADIC)):
        for part in range(6):
            shards.append({"kind": "nondyadic", "set": k, "first": part})
    for k in range(len(ULP_SETS)):
        for part in range(6):
            shards.append({"kind": "ulpwindow", "set": k, "first": part})
    return shards


PERM4_QUICK = [(0, 1, 2, 3), (3, 2, 1, 0), (1, 2, 3, 0), (1, 0, 2, 3), (2, 3, 0, 1), (0, 3, 1, 2)]


def run_shard(shard):
    acc = Acc()
    if shard["kind"] == "ulpwindow":
        labels = ULP_SETS[shard["set"]]
        for ci, opts in enumerate(ulp_window_configs(labels)):
            base = layout_map(labels, opts, None)
            acc.states += 1
            for perm in itertools.permutations(range(len(labels))):
                if perm[0] != shard["first"]:
                    continue
                got = layout_map(labels, opts, perm)
                acc.evals += 1
                acc.trans += 1
                acc.counters["perm_cases"] += 1
                acc.counters["ulp_window_perms"] += 1
                if got != base:
                    acc.violation({"labels": labels, "opts": opts, "perm": list(perm)}, "C06:order-dependent",
                                  "input order %r gives %r, sorted order gives %r" % (list(perm), got, base), order=(201, shard["set"], ci))
        acc.sample({"labels": labels, "opts": opts, "perm": list(perm)})
        return acc
    if shard["kind"] == "nondyadic":
        labels, opts = NONDYADIC[shard["set"]]
        base = layout_map(labels, opts, None)
        for perm in itertools.permutations(range(len(labels))):
            if perm[0] != shard["first"]:
                continue
            got = layout_map(labels, opts, perm)
            acc.evals += 1
            acc.trans += 1
            acc.counters["perm_cases"] += 1
            acc.counters["nondyadic_perms"] += 1
            if got != base:
                acc.violation({"labels": labels, "opts": opts, "perm": list(perm)}, "C06:order-dependent",
                              "input order %r gives %r, sorted order gives %r" % (list(perm), got, base), order=(200, shard["set"]))
        acc.states += 1
        acc.sample({"labels": labels, "opts": opts, "perm": list(perm)})
        return acc
    alpha = layout.letters("q", 0)
    quick = shard["tier"] == "quick"
    case = None
    for idx, ms in enumerate(layout.multisets(alpha, 4)):
        if idx % shard["mod"] != shard["rem"]:
            continue
        labels = [alpha[i] for i in ms]
        n = len(labels)
        acc.states += 1
        ok = proviso(labels)
        if n < 4:
            perms = list(itertools.permutations(range(n)))
            nconf = 10
            cis = list(range(nconf + 3))
        else:
            perms = PERM4_QUICK if quick else list(itertools.permutations(range(4)))
            nconf = 10
            cis = [0, 3, 5, 6, nconf + 1] if quick else list(range(nconf + 3))
        if not ok:
            perms = perms[:1] + perms[-1:] if n < 4 else perms[:1]
        for ci in cis:
            opts = layout.config_for(ci, labels, nconf)
            try:
                with horizon(120.0):
                    base = layout_map(labels, opts, None)
                    for perm in perms:
                        got = layout_map(labels, opts, perm)
                        again = got if ok else layout_map(labels, opts, perm)
                        acc.evals += 1
                        acc.trans += 1
                        acc.counters["perm_cases"] += 1
                        case = {"labels": labels, "opts": opts, "perm": list(perm)}
                        if ok and list(perm) != sorted(perm) and any(abs(r[3] - r[0]) > 0.5 for r in got):
                            acc.counters["perm_nontrivial"] += 1
                            acc.nontriv += 1
                        if ok and got != base:
                            acc.violation(case, "C06:order-dependent", "input order %r gives %r, sorted order gives %r"
                                          % (list(perm), got, base), order=(100 + n, idx, ci))
                        elif not ok and again != got:
                            acc.violation(case, "C06:nondeterministic", "the same input order twice gives %r then %r" % (got, again),
                                          order=(100 + n, idx, ci))
            except Hang:
                acc.violation({"labels": labels, "opts": opts, "perm": None}, "HANG", "compute did not return", order=(100 + n, idx, ci))
            except Exception as e:
                acc.violation({"labels": labels, "opts": opts, "perm": None}, "EXC:" + type(e).__name__, repr(e), order=(100 + n, idx, ci))
    if case:
        acc.sample(case)
    return acc


def replay(case):
    if "hist" in case:
        hist = [tuple(o) for o in case["hist"]]
        sets = [[tuple(l) for l in s] for s in case["sets"]]
        for k in range(1, len(hist) + 1):
            bad, _ = check_history(hist[:k], sets)
            if bad:
                return bad
        return None
    labels = [tuple(l) for l in case["labels"]]
    try:
        base = layout_map(labels, case["opts"], None)
        if case["perm"] is None:
            return None
        got = layout_map(labels, case["opts"], case["perm"])
        again = layout_map(labels, case["opts"], case["perm"])
    except Exception as e:
        return "EXC:" + type(e).__name__, repr(e)
    if proviso(labels):
        if got != base:
            return "C06:order-dependent", "input order %r gives %r, sorted order gives %r" % (case["perm"], got, base)
    elif again != got:
        return "C06:nondeterministic", "the same input order twice gives %r then %r" % (got, again)
    return None


def snippet(case):
    if "hist" in case:
        return "# history on one Force engine: %s\n# label sets: %r\n# option dicts: %r" % (
            fmt([tuple(o) for o in case["hist"]]), case["sets"], CFG)
    return layout.snippet_layout({"labels": [case["labels"][i] for i in (case["perm"] or range(len(case["labels"])))],
                                  "opts": case["opts"]})
