"""C08 - drawn label boxes are pairwise disjoint and sit on the chosen side of the axis."""
import itertools

from mc import draw, drawcases as dc
from mc.core import Acc, Hang

ID = "C08"
RULE = ("E-INPUT: every multiset of <= 3 (thorough <= 4) data over times {0,1,1.5,4,9,10} x widths {20,55} x text {absent,'ab'} "
        "(+ a seeded time) x 4 directions x 6 engine option sets (label spacing 3 or 5, bounds, simple algorithm, zero-width stubs with zero line spacing) x layer gaps "
        "{1, 17.5, 60} (SVG; TikZ at gap 17.5), 3 label paddings in rotation, real export parsed into rectangles. Oracle: pairwise disjoint, wholly on the "
        "direction's side at >= layerGap-1 from the axis, farther layers wholly beyond nearer ones. "
        "Non-trivial: >= 2 labels whose unconstrained extents along the axis intersect.")
ASSUMPTIONS = ["label spacing >= 3 and layer gap >= 1 as the statement restricts", "explicit widths only"]
REQUIRED_COUNTERS = ("exports", "conflicting", "multi_layer")
TIMES = (0, 1, 1.5, 4, 9, 10)
ENG = ({}, {"maxPos": 100}, {"maxPos": 70, "algorithm": "simple"}, {"nodeSpacing": 5, "minPos": 10, "maxPos": 120}, {"nodeSpacing": 5},
       {"maxPos": 100, "stubWidth": 0, "lineSpacing": 0})
GAPS = (1, 17.5, 60)
PADS = (None, {"left": 12, "right": 12, "top": 3, "bottom": 2}, {"left": 1, "right": 0, "top": 9, "bottom": 8})


def bounds(tier, seed):
    return {"max_data": 3 if tier == "quick" else 4, "letters": 24, "engine": ENG, "gaps": GAPS, "seeded_time": _seed_time(seed)}


def _seed_time(seed):
    return [0.25, 2.5, 3.75, 5.5, 7.125, 9.9][seed % 6]


def judge(case, acc=None):
    from labella.scale import LinearScale
    data = [dict(d) for d in case["data"]]
    direction, ei, gap, backend = case["cfg"][:4]
    opts = {"scale": LinearScale(), "direction": direction, "labella": dict(ENG[ei]), "layerGap": gap,
            "initialWidth": 200, "initialHeight": 200, "domain": [0, 10]}
    pad = PADS[case["cfg"][4]] if len(case["cfg"]) > 4 else None
    if pad:
        opts["labelPadding"] = dict(pad)
    try:
        doc, tl, R = dc.run_export(backend, data, opts)
    except Hang:
        return "HANG", "export did not return"
    except draw.ParseError as e:
        return "C08:parse", "export does not parse: %s" % e
    except Exception as e:
        return "EXC:" + type(e).__name__, "export raised %r" % (e,)
    bs = R["boxes"]
    ext = [draw.box_extent(direction, b) for b in bs]
    sgn = draw.sign_of(direction)
    if acc is not None:
        acc.counters["exports"] += 1
        pos = sorted((160 * d["time"] / 10, draw.expected_box_size(d, opts)[0]) for d in data)
        if any(b[0] - b[1] / 2 < a[0] + a[1] / 2 for a, b in zip(pos, pos[1:])):
            acc.counters["conflicting"] += 1
            acc.nontriv += 1
    for b, (al, ac) in zip(bs, ext):
        near = min(abs(ac[0]), abs(ac[1]))
        if not (ac[0] * sgn > 0 and ac[1] * sgn > 0) or near < gap - 1 - 1e-9:
            return ("C08:side", "direction %s, layer gap %r: box origin %r size %rx%r spans across-axis %r"
                    % (direction, gap, b["origin"], b["w"], b["h"], ac))
    for (i, a), (j, b) in itertools.combinations(enumerate(ext), 2):
        if a[0][0] < b[0][1] and b[0][0] < a[0][1] and a[1][0] < b[1][1] and b[1][0] < a[1][1]:
            return ("C08:overlap", "boxes %r and %r intersect" % ((bs[i]["origin"], bs[i]["w"], bs[i]["h"]),
                                                                  (bs[j]["origin"], bs[j]["w"], bs[j]["h"])))
    groups = {}
    for e in ext:
        near = min(abs(e[1][0]), abs(e[1][1]))
        groups.setdefault(near, []).append(e)
    keys = sorted(groups)
    if acc is not None and len(keys) > 1:
        acc.counters["multi_layer"] += 1
    for k1, k2 in zip(keys, keys[1:]):
        far_of_near = max(max(abs(e[1][0]), abs(e[1][1])) for e in groups[k1])
        if k2 < far_of_near - 1e-9:
            return ("C08:layer-order", "a box of the layer starting at %r reaches %r, but a farther layer starts at %r"
                    % (k1, far_of_near, k2))
    return None


def plan(tier, seed):
    n = 32 if tier == "quick" else 128
    nmax = 3 if tier == "quick" else 4
    return [{"nmax": nmax, "mod": n, "rem": r, "seed": seed} for r in range(n)]


def run_shard(shard):
    acc = Acc()
    alpha = [(t, w, x) for t in TIMES for w in (20, 55) for x in (None, "ab")]
    alpha_seed = [(_seed_time(shard["seed"]), w, x) for w in (20, 55) for x in (None, "ab")]
    idx = 0
    case = None

    def all_sets():
        for k in range(1, shard["nmax"] + 1):
            for ms in itertools.combinations_with_replacement(range(len(alpha)), k):
                yield [alpha[i] for i in ms]
        for s in alpha_seed:  # seeded slice: one seeded datum against every pair
            for ms in itertools.combinations_with_replacement(range(0, len(alpha), 3), 2):
                yield [s] + [alpha[i] for i in ms]
    for seq in all_sets():
        idx += 1
        if idx % shard["mod"] != shard["rem"]:
            continue
        data = [dc.datum(l) for l in seq]
        acc.states += 1
        for direction in dc.DIRECTIONS:
            for ei in range(len(ENG)):
                for gap in GAPS:
                    for backend in (("svg", "tex") if gap == 17.5 else ("svg",)):
                        # label padding variants rotate over the cases so every variant meets every configuration
                        case = {"data": data, "cfg": [direction, ei, gap, backend, (idx + ei + GAPS.index(gap)) % len(PADS)]}
                        bad = judge(case, acc)
                        acc.evals += 1
                        acc.trans += 1
                        if bad:
                            acc.violation(case, bad[0], bad[1], order=(len(data), idx, ei, gap))
    if case:
        acc.sample(case)
    return acc


def replay(case):
    return judge(case)


def snippet(case):
    direction, ei, gap, backend = case["cfg"][:4]
    return ("from labella.scale import LinearScale\nfrom labella.timeline import TimelineSVG, TimelineTex\n"
            "opts={'scale':LinearScale(),'direction':%r,'labella':%r,'layerGap':%r,'initialWidth':200,'initialHeight':200,'domain':[0,10]}\n"
            "print(%s(%r, opts).export())" % (direction, ENG[ei], gap, "TimelineSVG" if backend == "svg" else "TimelineTex", case["data"]))
