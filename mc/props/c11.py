"""C11 - export succeeds on every documented input."""
import copy
import datetime as _dt
import itertools

from mc import draw, drawcases as dc
from mc.core import Acc, Hang, horizon

ID = "C11"
RULE = ("E-INPUT: (A) date ladder: start dates = 28th..31st and 1st of every month of 2019-2020 (+ a seeded date) x 19 spans "
        "(0, 1 ms .. 150 y) x value type {datetime, date, datetime with microseconds} x n in {1,2,3} (sorted and unsorted), with options omitted / {} / "
        "{'direction': d} in rotation, both back-ends; (B) option sweep: 12 dataset shapes (single datum, equal times, ints, "
        "floats, dates, datetimes, bare times, unsorted) x option form {omitted, empty, partial, full} x 4 directions x 3 "
        "algorithms x 5 bounds (incl. a zero-width band) x tick display x 2 back-ends, plus export to a file (bare name and path) compared with the returned text; records that carry other fields (a lock, a generator, an open stream, a reference to themselves, a 500-record chain of references to the predecessor); rows of 300 and 700 exactly touching labels; (C, thorough) 200/500/1000 labels with conflict clusters of "
        "1..200 labels, and one probe at 250. Oracle: export returns within the horizon without raising, the document parses, "
        "one dot/link/box per datum, a degenerate domain puts every dot at axis position 0. Non-trivial: every case (each is a "
        "distinct documented input shape); separately counted: degenerate domains, month-end spans, sub-second spans.")
ASSUMPTIONS = ["numeric times are accompanied by an explicit LinearScale() (documented usage; the library default is a time scale)",
               "explicit widths only (no LaTeX in the image)", "clusters above 200 labels are outside the claim (known finding)"]
REQUIRED_COUNTERS = ("exports", "degenerate", "options_none", "subsecond_spans", "month_end_starts", "file_exports", "records_with_other_fields")

D = 86400000
SPANS = [0, 1, 7, 9, 10, 1000, 90000, 3600000, 11 * 3600000, D, 3 * D, 10 * D, 31 * D, 45 * D, 200 * D, 366 * D, 1826 * D, 14610 * D, 54787 * D]
ALGOS = ("overlap", "simple", "none")
BOUNDS = ({}, {"minPos": None}, {"maxPos": 90}, {"maxPos": 0}, {"minPos": 120, "maxPos": 120})


def bounds(tier, seed):
    return {"ladder": {"starts": len(starts(seed)), "spans_ms": SPANS, "types": ["datetime", "date", "datetime with microseconds"], "n": [1, 2, 3]},
            "sweep": {"shapes": len(shapes()), "forms": ["omitted", "empty", "partial", "full"], "directions": 4, "algorithms": 3,
                      "bounds": 5, "ticks": 2},
            "large": "n in {200,500,1000} x cluster sizes {1,2,5,10,50,100,150,200}, probe 250" if tier == "thorough" else "thorough only"}


def starts(seed, tier="quick"):
    out = []
    if tier == "thorough":
        d = _dt.datetime(2019, 1, 1)
        while d < _dt.datetime(2021, 1, 1):
            out.append(d + _dt.timedelta(hours=13, minutes=30, seconds=15, milliseconds=250) if d.day % 2 else d)
            d += _dt.timedelta(days=1)
        out.append(_dt.datetime(1999, 12, 31, 23, 59, 59, 999000))
        return out
    for y in (2019, 2020):
        for m in range(1, 13):
            for d in (28, 29, 30, 31, 1):
                try:
                    out.append(_dt.datetime(y, m, d, 13, 30, 15, 250000) if (d + m) % 2 else _dt.datetime(y, m, d))
                except ValueError:
                    pass
    out.append(_dt.datetime(1999, 12, 31, 23, 59, 59, 999000))
    out.append(_dt.datetime(2019, 1, 1) + _dt.timedelta(days=(seed * 37) % 730, minutes=(seed * 101) % 1440))
    return out


def ladder_data(st, span, typ, n, rev):
    ts = [st] if n == 1 else ([st, st + _dt.timedelta(milliseconds=span)] if n == 2 else
                              [st, st + _dt.timedelta(milliseconds=span // 2), st + _dt.timedelta(milliseconds=span)])
    if typ == "date":
        ts = [t.date() for t in ts]
    elif typ == "datetime-us":  # datetimes carry microseconds
        ts = [t + _dt.timedelta(microseconds=333 + 7 * i) for i, t in enumerate(ts)]
    if rev:
        ts = ts[::-1]
    return [{"time": t, "width": 40} if i % 2 else {"time": t, "width": 30, "text": "e%d" % i} for i, t in enumerate(ts)]


def shapes():
    dt = _dt.datetime
    return [
        ("lin", [{"time": 5, "width": 40}]),
        ("lin", [{"time": 3, "width": 40}, {"time": 3, "width": 20, "text": "x"}]),
        ("lin", [{"time": 0, "width": 40}, {"time": 10, "width": 40}, {"time": 4, "width": 40, "text": "mid"}]),
        ("lin", [{"time": 0.5, "width": 55}, {"time": 0.75, "width": 55}, {"time": 0.625, "width": 55}]),
        ("lin", [{"time": -3, "width": 10}, {"time": 1e6, "width": 10}]),
        ("lin", [{"time": 1.0, "width": 10}, {"time": 1.0000000000000002, "width": 10}]),
        ("lin", [{"time": 1e12, "width": 10}, {"time": 1e12 + 0.0001220703125, "width": 10}, {"time": 1e12 + 0.000244140625, "width": 10}]),
        ("time", [{"time": dt(2020, 2, 29, 12), "width": 40}]),
        ("time", [{"time": dt(2020, 1, 31), "width": 40}, {"time": dt(2020, 1, 31), "width": 40, "text": "same"}]),
        ("time", [{"time": dt(2020, 3, 1, 8), "width": 40, "text": "b"}, {"time": dt(2019, 12, 31, 23, 59), "width": 40},
                  {"time": dt(2020, 1, 31, 12), "width": 40}]),
        ("time", [{"time": _dt.date(2020, 1, 30), "width": 40}, {"time": _dt.date(2020, 3, 2), "width": 40}]),
        ("time", [{"time": _dt.date(2020, 12, 31), "width": 40}]),
        ("time", [{"time": _dt.time(9, 15), "width": 40}, {"time": _dt.time(17, 45, 30), "width": 40, "text": "pm"}]),
        ("time", [{"time": _dt.time(12, 0), "width": 40}]),
    ]


def options_for(kind, form, direction, algo, bi, ticks):
    """form: omitted | empty | partial | full.  Numeric data always carry their LinearScale."""
    from labella.scale import LinearScale, TimeScale
    if kind == "lin":
        if form in ("omitted", "empty"):
            return {"scale": LinearScale()}
        if form == "partial":
            return {"scale": LinearScale(), "direction": direction}
    else:
        if form == "omitted":
            return draw.NOTHING
        if form == "empty":
            return {}
        if form == "partial":
            return {"direction": direction}
    lab = dict(BOUNDS[bi])
    lab["algorithm"] = algo
    o = {"direction": direction, "labella": lab, "showTicks": ticks, "initialWidth": 300, "initialHeight": 250, "layerGap": 30,
         "labelBgColor": "#abc", "showBorder": ticks}
    o["scale"] = LinearScale() if kind == "lin" else TimeScale()
    return o


def degenerate(data):
    return len({draw.as_number(draw.to_instant(d["time"], _dt.date(2020, 1, 1))) for d in data}) < 2


def attach_payload(data, kind):
    """Other fields in the records (the README: 'other data can be incorporated in the dict', for textFn and colour
    functions): values that cannot be copied or pickled, and records that refer to each other."""
    import threading
    if kind == "lock":
        for d in data:
            d["resource"] = threading.Lock()
    elif kind == "generator":
        for d in data:
            d["more"] = (x for x in (1, 2, 3))
    elif kind == "stream":
        import sys
        for d in data:
            d["log"] = sys.stderr
    elif kind == "chain":
        data.reverse()  # newest first; every record refers to the one before it in time
        for a, b in zip(data, data[1:]):
            a["previous"] = b
    elif kind == "self":
        for d in data:
            d["self"] = d
    return data


PAYLOADS = ("lock", "generator", "stream", "chain", "self")


def judge(case, acc=None):
    data = copy.deepcopy(case["data"])
    if case.get("payload"):
        data = attach_payload(data, case["payload"])
        if acc is not None:
            acc.counters["records_with_other_fields"] += 1
    backend = case["backend"]
    if case["opt"][0] == "big":
        form, direction = "full", "up"
        opts = big_options(case["opt"][1])
    else:
        form, direction, algo, bi, ticks = case["opt"]
        opts = options_for(case["kind"], form, direction, algo, bi, ticks)
    d_eff = direction if form in ("partial", "full") else "right"
    try:
        with horizon(case.get("budget", 10.0)):
            tl = draw.make_timeline(backend, data, opts)
            doc = tl.export()
    except Hang:
        return "HANG", "construct+export did not return within the horizon"
    except RecursionError:
        return "EXC:RecursionError", "export raised RecursionError"
    except Exception as e:
        return "EXC:" + type(e).__name__, "%s export (options %s) raised %r" % (backend, form, e)
    try:
        R = draw.parse(backend, doc)
    except draw.ParseError as e:
        return "C11:parse", "%s export does not parse: %s" % (backend, e)
    n = len(case["data"])
    if not (len(R["dots"]) == len(R["links"]) == len(R["boxes"]) == n):
        return "C11:count", "%d data but %d dots, %d links, %d boxes" % (n, len(R["dots"]), len(R["links"]), len(R["boxes"]))
    deg = degenerate(case["data"]) and case["opt"][0] != "big"  # the large family passes an explicit domain
    if acc is not None:
        acc.counters["exports"] += 1
        acc.nontriv += 1
        if deg:
            acc.counters["degenerate"] += 1
        if form == "omitted":
            acc.counters["options_none"] += 1
    if deg:
        for d in R["dots"]:
            if draw.along(d_eff, d["pos"]) != 0 or draw.across(d_eff, d["pos"]) != 0:
                return "C11:degenerate-dot", "degenerate time domain but a dot is drawn at %r" % (d["pos"],)
    return None


def judge_file(case):
    """export(filename): the file is written (also for a bare file name) and holds the returned document."""
    import os
    import tempfile
    data = copy.deepcopy(case["data"])
    backend = case["backend"]
    form, direction, algo, bi, ticks = case["opt"]
    opts = options_for(case["kind"], form, direction, algo, bi, ticks)
    old = os.getcwd()
    with tempfile.TemporaryDirectory(prefix="verif_c11_") as tmp:
        try:
            os.chdir(tmp)
            name = {"bare": "timeline.out", "rel": os.path.join(".", "timeline.out"), "abs": os.path.join(tmp, "timeline.out")}[case["file"]]
            with horizon(10.0):
                tl = draw.make_timeline(backend, data, opts)
                ret = tl.export(name) if backend == "svg" else tl.export(name, build_pdf=False)
            with open(os.path.join(tmp, "timeline.out"), "rb") as f:
                body = f.read()
        except Hang:
            return "HANG", "export(%r) did not return" % case["file"]
        except Exception as e:
            return "EXC:file:" + type(e).__name__, "%s export to a %s file name raised %r" % (backend, case["file"], e)
        finally:
            os.chdir(old)
    want = ret if isinstance(ret, bytes) else ret.encode("utf-8")
    if body != want:
        return "C11:file-content", "%s export(%s name): the file does not hold the returned document" % (backend, case["file"])
    return None


def big_data(n, c):
    """n labels in conflict clusters of c labels each: the labels of a cluster share one instant, clusters are far
    enough apart (in pixels: the axis is as long as the data, scale factor 1) not to touch each other."""
    if c == 0:  # one row of labels that touch exactly: pitch = width + padding + spacing, nobody has to move
        data = [{"time": float(20 + 19 * i), "width": 12} for i in range(n)]
        return data, float(40 + 19 * (n - 1))
    data = []
    pitch = c * 20 + 40  # a label needs 12 + 4 padding + 3 spacing = 19
    off = c * 10 + 20    # room for half a cluster before the first instant (positions are bounded below by 0)
    k = 0
    while len(data) < n:
        for _ in range(min(c, n - len(data))):
            data.append({"time": float(off + k * pitch), "width": 12})
        k += 1
    return data, float(2 * off + max(0, k - 1) * pitch)


def big_options(length):
    from labella.scale import LinearScale
    return {"scale": LinearScale(), "direction": "up", "domain": [0, length], "initialWidth": length + 40, "initialHeight": 400,
            "labella": {"algorithm": "overlap"}}


def plan(tier, seed):
    shards = []
    n = 32
    for r in range(n):
        shards.append({"kind": "ladder", "seed": seed, "tier": tier, "mod": n, "rem": r})
    for r in range(n):
        shards.append({"kind": "sweep", "mod": n, "rem": r})
    if tier == "thorough":
        for nn in (200, 500, 1000):
            for c in (1, 2, 5, 10, 50, 100, 150, 200):
                shards.append({"kind": "big", "n": nn, "c": c})
    shards.append({"kind": "files"})
    shards.append({"kind": "big", "n": 300, "c": 250})  # the known finding probe
    for nn in (300, 700):
        shards.append({"kind": "big", "n": nn, "c": 0})  # rows of exactly touching labels (conflict clusters of size 1)
    shards.append({"kind": "big", "n": 500, "c": 1, "payload": "chain"})  # records that refer to their predecessor
    shards.append({"kind": "payload"})
    return shards


def run_shard(shard):
    acc = Acc()
    case = None
    if shard["kind"] == "ladder":
        idx = 0
        for si, st in enumerate(starts(shard["seed"], shard.get("tier", "quick"))):
            for sp in SPANS:
                for typ in ("datetime", "date", "datetime-us"):
                    for n, rev in ((1, False), (2, False), (2, True), (3, False), (3, True)):
                        if n == 1 and sp != SPANS[0]:
                            continue
                        idx += 1
                        if idx % shard["mod"] != shard["rem"]:
                            continue
                        data = ladder_data(st, sp, typ, n, rev)
                        acc.states += 1
                        if 0 < sp < 1000:
                            acc.counters["subsecond_spans"] += 1
                        if st.day >= 28:
                            acc.counters["month_end_starts"] += 1
                        forms = [("omitted", "right"), ("empty", "right"), ("partial", dc.DIRECTIONS[idx % 4])]
                        form, direction = forms[idx % 3]
                        for backend in ("svg", "tex"):
                            case = {"kind": "time", "data": data, "backend": backend, "opt": [form, direction, "overlap", 0, True]}
                            bad = judge(case, acc)
                            acc.evals += 1
                            acc.trans += 1
                            if bad:
                                acc.violation(case, bad[0], bad[1], order=(0, sp, n, si))
    elif shard["kind"] == "sweep":
        idx = 0
        for shi, (kind, data) in enumerate(shapes()):
            for form in ("omitted", "empty", "partial", "full"):
                for direction in dc.DIRECTIONS:
                    for algo in ALGOS:
                        for bi in range(len(BOUNDS)):
                            for ticks in (True, False):
                                if form != "full" and (algo != "overlap" or bi or not ticks):
                                    continue
                                if form in ("omitted", "empty") and direction != "right":
                                    continue
                                idx += 1
                                if idx % shard["mod"] != shard["rem"]:
                                    continue
                                acc.states += 1
                                for backend in ("svg", "tex"):
                                    case = {"kind": kind, "data": data, "backend": backend, "opt": [form, direction, algo, bi, ticks]}
                                    bad = judge(case, acc)
                                    acc.evals += 1
                                    acc.trans += 1
                                    if bad:
                                        acc.violation(case, bad[0], bad[1], order=(1, shi, idx))
    elif shard["kind"] == "files":
        for shi, (kind, data) in enumerate(shapes()):
            for backend in ("svg", "tex"):
                for fm in ("bare", "rel", "abs"):
                    case = {"kind": kind, "data": data, "backend": backend, "opt": ["full", "up", "overlap", 0, True], "file": fm}
                    bad = judge_file(case)
                    acc.evals += 1
                    acc.states += 1
                    acc.trans += 1
                    acc.nontriv += 1
                    acc.counters["file_exports"] += 1
                    if bad:
                        acc.violation(case, bad[0], bad[1], order=(1, 900 + shi, 0))
    elif shard["kind"] == "payload":
        for shi, (kind, data) in enumerate(shapes()):
            for pi, payload in enumerate(PAYLOADS):
                for backend in ("svg", "tex"):
                    case = {"kind": kind, "data": data, "backend": backend, "opt": ["full", dc.DIRECTIONS[(shi + pi) % 4], "overlap", 0, True],
                            "payload": payload}
                    bad = judge(case, acc)
                    acc.evals += 1
                    acc.states += 1
                    acc.trans += 1
                    if bad:
                        acc.violation(case, bad[0] + ":payload", bad[1] + " [records carry a %s field]" % payload, order=(1, 950 + shi, pi))
    else:
        n, c = shard["n"], shard["c"]
        for backend in ("svg", "tex"):
            data, length = big_data(n, c)
            case = {"kind": "lin", "data": data, "backend": backend, "opt": ["big", length], "budget": 600.0}
            if shard.get("payload"):
                case["payload"] = shard["payload"]
            bad = judge(case, acc)
            acc.evals += 1
            acc.states += 1
            acc.trans += 1
            acc.counters["large_cases"] += 1
            if bad:
                key = bad[0]
                small = {"kind": "big", "n": n, "c": c, "backend": backend, "payload": shard.get("payload")}
                if c > 200 and key == "EXC:RecursionError":
                    key = "cluster>200:RecursionError"
                acc.violation(small, key, "%d labels with clusters of %d: %s" % (n, c, bad[1]), order=(2, c, n))
            break  # one back-end is enough for the size sweep (the layout is shared)
        case = {"kind": "big", "n": n, "c": c, "backend": "svg"}
    if case:
        acc.sample(case if case.get("kind") == "big" else case)
    return acc


def replay(case):
    if case.get("kind") == "big":
        data, length = big_data(case["n"], case["c"])
        full = {"kind": "lin", "data": data, "backend": case["backend"], "opt": ["big", length], "budget": 600.0}
        if case.get("payload"):
            full["payload"] = case["payload"]
        bad = judge(full)
        if bad and case["c"] > 200 and bad[0] == "EXC:RecursionError":
            return "cluster>200:RecursionError", bad[1]
        return bad
    if case.get("file"):
        return judge_file(case)
    bad = judge(case)
    if bad and case.get("payload"):
        return bad[0] + ":payload", bad[1]
    return bad


def snippet(case):
    if case.get("kind") == "big":
        return ("from labella.scale import LinearScale\nfrom labella.timeline import TimelineSVG\n"
                "n,c=%d,%d\npitch=c*20+40; off=c*10+20\ndata=[{'time':float(off+(i//c)*pitch),'width':12} for i in range(n)]\nL=data[-1]['time']+off\n"
                "TimelineSVG(data,{'scale':LinearScale(),'direction':'up','domain':[0,L],'initialWidth':L+40}).export()" % (case["n"], case["c"]))
    return "# kind=%s options form/direction/algorithm/bounds/ticks=%r backend=%s\n# data=%r" % (
        case["kind"], case["opt"], case["backend"], case["data"])
