"""C20 - TeX names unique (shortlex over A-Z), colour conversions agree.  E-FULL."""
import itertools
import string

from mc.core import Acc

ID = "C20"
RULE = ("E-FULL: int2name(i) for every i in the index range compared in order with the "
        "shortlex enumeration of non-empty A-Z strings (itertools.product); every 3-digit "
        "code over 0-9a-fA-F and every 6-digit code over the tier's digit set, with and "
        "without '#', through hex2rgb/hex2rgbstr/hex2html against int(.,16); for all 4096 three-digit codes a back-to-back call sequence of codes sharing a numeric value or prefix, and the same six spellings per code as per-label colours (a list and a function) of 16 TikZ documents whose \\definecolor lines are read back; TikZ documents with 750 and 18300 (thorough 3000 and 19000) labels whose macro names must be the shortlex names, pairwise distinct. Non-trivial: "
        "multi-letter names (a carry happened) / codes containing a letter digit.")
ASSUMPTIONS = ["int(s, 16) and itertools.product are the trusted reference",
               "codes outside 3/6 hex digits are outside the property"]
REQUIRED_COUNTERS = ("names_multi_letter", "codes_3digit", "codes_6digit", "adjacent_calls", "document_labels", "colour_document_labels")
HEX22 = "0123456789abcdefABCDEF"
N_NAMES = 1000001


def bounds(tier, seed):
    return {"names": [0, N_NAMES - 1], "three_digit": "22^3 x {#,none}",
            "six_digit": ("8^6 over %s x {#,none} + seeded 8-digit set" % "".join(_digits6(seed, 0))
                          if tier == "quick" else "16^6 lower + 16^6 upper x {#,none} + mixed 8^6")}


def _digits6(seed, which):
    base = list("0179afAF")
    if which == 0:
        return base
    # seeded slice: another 8-digit alphabet (always inside the quantifier domain)
    k = seed % 15
    rot = list(HEX22[k:] + HEX22[:k])
    return rot[0:16:2]


def plan(tier, seed):
    shards = []
    step = 62501
    for a in range(0, N_NAMES, step):
        shards.append(["names", a, min(N_NAMES, a + step)])
    shards.append(["hex3"])
    for d in range(8):
        shards.append(["hex6", "".join(_digits6(seed, 0)), d])
    for d in range(8):
        shards.append(["hex6", "".join(_digits6(seed, 1)), d])
    for d in range(16):
        shards.append(["adjacent", d])
    for d in range(16):  # documents whose labels carry colour codes that share a numeric value or a prefix
        shards.append(["colourdoc", d])
    shards.append(["document", 750 if tier == "quick" else 3000])
    shards.append(["document", 18300 if tier == "quick" else 19000])  # beyond the first four-letter name (index 18278)
    if tier == "thorough":
        for alpha in ("0123456789abcdef", "0123456789ABCDEF"):
            for d1 in range(16):
                for half in (0, 1):
                    shards.append(["hex6full", alpha, d1, half])
    return shards


def shortlex():
    for n in itertools.count(1):
        for t in itertools.product(string.ascii_uppercase, repeat=n):
            yield "".join(t)


def check_code(U, code):
    """Returns None or (key, reason)."""
    body = code[1:] if code.startswith("#") else code
    full = body if len(body) == 6 else "".join(c + c for c in body)
    exp = (int(full[0:2], 16), int(full[2:4], 16), int(full[4:6], 16))
    try:
        rgb = U.hex2rgb(code)
        s = U.hex2rgbstr(code)
        h = U.hex2html(code)
    except Exception as e:
        return "EXC:" + type(e).__name__, "%r raised %r" % (code, e)
    if tuple(rgb) != exp:
        return "hex2rgb:wrong", "hex2rgb(%r)=%r expected %r" % (code, rgb, exp)
    if s != "rgb(%d, %d, %d)" % exp:
        return "hex2rgbstr:wrong", "hex2rgbstr(%r)=%r expected %r" % (code, s, "rgb(%d, %d, %d)" % exp)
    if not (isinstance(h, str) and len(h) == 6 and h == h.upper()
            and all(c in "0123456789ABCDEF" for c in h)
            and (int(h[0:2], 16), int(h[2:4], 16), int(h[4:6], 16)) == exp):
        return "hex2html:wrong", "hex2html(%r)=%r expected %r" % (code, h, full.upper())
    return None


def check_document(n):
    """A TikZ document with n well separated labels: the per-label colour and text macro names are pairwise distinct
    and are the shortlex names in label order."""
    import re
    from labella.scale import LinearScale
    from labella.timeline import TimelineTex
    data = [{"time": float(i * 30), "width": 10, "text": "t%d" % i} for i in range(n)]
    L = float(n * 30)
    try:
        doc = TimelineTex(data, {"scale": LinearScale(), "domain": [0, L], "initialWidth": L + 40, "direction": "up",
                                 "showTicks": False, "showBorder": True}).export()
    except Exception as e:
        return "EXC:document:" + type(e).__name__, "TimelineTex with %d labels raised %r" % (n, e)
    want = list(itertools.islice(shortlex(), n))
    for prefix in ("dotColor", "labelBgColor", "labelTextColor", "linkColor", "borderColor"):
        names = re.findall(r"^\\definecolor\{%s([A-Z]+)\}" % prefix, doc, re.M)
        if len(set(names)) != len(names):
            dup = next(x for x in names if names.count(x) > 1)
            return "C20:document-duplicate-name", "%d labels: colour name %s%s is defined for two labels" % (n, prefix, dup)
        if names != want:
            k = next(i for i, (a, b) in enumerate(zip(names + [None] * n, want)) if a != b)
            return "C20:document-names", "%d labels: %s of label %d is %r, expected %r" % (n, prefix, k, (names + [None] * n)[k], want[k])
    texts = re.findall(r"^\\def\\text([A-Z]+)\{", doc, re.M)
    if texts != want:
        return "C20:document-names", "%d labels: the text macros are not the shortlex names in label order" % n
    return None


def check_colour_document(d0):
    """One TikZ document whose per-label colours are codes that share a numeric value or a prefix (xyz, 000xyz, xyz000,
    xxyyzz, upper case, with and without '#'), as a list for one colour kind and through a function for another: every
    \\definecolor line must carry the colour of its own label."""
    import re
    from labella.scale import LinearScale
    from labella.timeline import TimelineTex
    codes = []
    for t in itertools.product("0123456789abcdef", repeat=2):
        xyz = d0 + "".join(t)
        codes += ["#" + xyz, "#000" + xyz, xyz.upper(), "#" + xyz + "000", "".join(c + c for c in xyz), "000" + xyz.upper()]
    n = len(codes)
    data = [{"time": float(i * 30), "width": 10, "text": "t", "c": codes[(i * 7) % n]} for i in range(n)]
    L = float(n * 30)
    try:
        doc = TimelineTex(data, {"scale": LinearScale(), "domain": [0, L], "initialWidth": L + 40, "direction": "up", "showTicks": False,
                                 "dotColor": list(codes), "linkColor": lambda d: d["c"]}).export()
    except Exception as e:
        return "EXC:colour-document:" + type(e).__name__, "TimelineTex with %d colour codes raised %r" % (n, e)

    def html(code):
        body = code.lstrip("#")
        full = body if len(body) == 6 else "".join(c + c for c in body)
        return full.upper()
    for prefix, want in (("dotColor", [html(c) for c in codes]), ("linkColor", [html(d["c"]) for d in data])):
        got = re.findall(r"^\\definecolor\{%s[A-Z]+\}\{HTML\}\{([0-9A-Fa-f]*)\}" % prefix, doc, re.M)
        if len(got) != n:
            return "C20:colour-document", "%d %s definitions for %d labels" % (len(got), prefix, n)
        for i, (g, w) in enumerate(zip(got, want)):
            if g.upper() != w:
                return ("C20:colour-document", "label %d: %s is defined as %s in the TikZ document, its colour code %r means %s"
                        % (i, prefix, g, codes[i] if prefix == "dotColor" else data[i]["c"], w))
    return None


def run_shard(shard):
    import labella.utils as U
    acc = Acc()
    kind = shard[0]
    if kind == "names":
        a, b = shard[1], shard[2]
        gen = itertools.islice(shortlex(), a, b)
        seen = set()
        for i, exp in zip(range(a, b), gen):
            acc.evals += 1
            try:
                got = U.int2name(i)
            except Exception as e:
                acc.violation({"fn": "int2name", "arg": i}, "EXC:" + type(e).__name__, repr(e))
                continue
            seen.add(got)
            if got != exp:
                acc.violation({"fn": "int2name", "arg": i}, "int2name:wrong",
                              "int2name(%d)=%r, shortlex says %r" % (i, got, exp))
            if len(exp) > 1:
                acc.nontriv += 1
                acc.counters["names_multi_letter"] += 1
        acc.counters["names_distinct"] += len(seen)
        if len(seen) != b - a and not acc.viol:
            acc.violation({"fn": "int2name", "range": [a, b]}, "int2name:collision",
                          "only %d distinct names for %d indices" % (len(seen), b - a))
        acc.states = b - a
        acc.trans = b - a
        acc.sample({"fn": "int2name", "arg": a})
        return acc
    if kind == "adjacent":
        # codes that denote different colours but share a numeric value or a prefix, converted back to back
        # (the conversions are pure functions: an answer must not depend on the previous call)
        d0 = "0123456789abcdef"[shard[1]]
        for t in itertools.product("0123456789abcdef", repeat=2):
            xyz = d0 + "".join(t)
            seq = [xyz, "000" + xyz, xyz, "#" + xyz.upper(), xyz + "000", "".join(c + c for c in xyz), "000" + xyz, "#" + xyz]
            acc.states += 1
            for code in seq:
                acc.evals += 1
                acc.trans += 1
                acc.counters["adjacent_calls"] += 1
                bad = check_code(U, code)
                if bad:
                    acc.violation({"fn": "hex-seq", "arg": seq, "at": code}, bad[0] + ":after-other-code", bad[1], order=(5, xyz))
            acc.nontriv += 1
        acc.sample({"fn": "hex-seq", "arg": seq, "at": seq[1]})
        return acc
    if kind == "colourdoc":
        bad = check_colour_document("0123456789abcdef"[shard[1]])
        acc.evals += 1
        acc.states += 256 * 6
        acc.trans += 256 * 6
        acc.counters["colour_document_labels"] += 256 * 6
        acc.nontriv += 256 * 6
        if bad:
            acc.violation({"fn": "colourdoc", "arg": shard[1]}, bad[0], bad[1], order=(7, shard[1]))
        acc.sample({"fn": "colourdoc", "arg": shard[1]})
        return acc
    if kind == "document":
        n = shard[1]
        bad = check_document(n)
        acc.evals += 1
        acc.states += n
        acc.trans += n
        acc.counters["document_labels"] += n
        acc.nontriv += n
        if bad:
            acc.violation({"fn": "document", "arg": n}, bad[0], bad[1], order=(6, n))
        acc.sample({"fn": "document", "arg": n})
        return acc
    if kind == "hex3":
        codes = ("".join(t) for t in itertools.product(HEX22, repeat=3))
        cname = "codes_3digit"
    elif kind == "hex6":
        alpha, d = shard[1], shard[2]
        codes = (alpha[d] + "".join(t) for t in itertools.product(alpha, repeat=5))
        cname = "codes_6digit"
    else:
        alpha, d1, half = shard[1], shard[2], shard[3]
        seconds = alpha[:8] if half == 0 else alpha[8:]
        codes = (alpha[d1] + d2 + "".join(t) for d2 in seconds
                 for t in itertools.product(alpha, repeat=4))
        cname = "codes_6digit"
    for body in codes:
        for code in (body, "#" + body):
            acc.evals += 1
            bad = check_code(U, code)
            if bad:
                acc.violation({"fn": "hex", "arg": code}, bad[0], bad[1])
        acc.states += 1
        acc.trans += 2
        acc.counters[cname] += 1
        if any(c in "abcdefABCDEF" for c in body):
            acc.nontriv += 1
    acc.sample({"fn": "hex", "arg": "#" + body})
    return acc


def replay(case):
    import labella.utils as U
    if case["fn"] == "int2name":
        if "arg" in case:
            i = case["arg"]
            exp = next(itertools.islice(shortlex(), i, i + 1))
            try:
                got = U.int2name(i)
            except Exception as e:
                return "EXC:" + type(e).__name__, repr(e)
            if got != exp:
                return "int2name:wrong", "int2name(%d)=%r, shortlex says %r" % (i, got, exp)
            return None
        a, b = case["range"]
        names = {U.int2name(i) for i in range(a, b)}
        if len(names) != b - a:
            return "int2name:collision", "only %d distinct names" % len(names)
        return None
    if case["fn"] == "hex-seq":
        for code in case["arg"]:
            bad = check_code(U, code)
            if bad:
                return bad[0] + ":after-other-code", bad[1]
        return None
    if case["fn"] == "document":
        return check_document(case["arg"])
    if case["fn"] == "colourdoc":
        return check_colour_document("0123456789abcdef"[case["arg"]])
    return check_code(U, case["arg"])


def snippet(case):
    if case["fn"] == "int2name" and "arg" in case:
        return "from labella.utils import int2name\nprint(int2name(%d))" % case["arg"]
    if case["fn"] == "hex":
        return ("from labella.utils import hex2rgb, hex2rgbstr, hex2html\nc=%r\n"
                "print(hex2rgb(c), hex2rgbstr(c), hex2html(c))" % case["arg"])
    return ""
