"""R-CAL: calendar reference built only on datetime/timedelta/calendar."""
import calendar
from datetime import datetime, timedelta

UNITS = ("second", "minute", "hour", "day", "week", "month", "year")
MS = timedelta(milliseconds=1)
EPOCH = datetime(1970, 1, 1)


def ms_of(t):
    """Naive-UTC epoch milliseconds, exact (int or Fraction-compatible float)."""
    return (t - EPOCH) / MS


def floor(u, t):
    if u == "second":
        return t.replace(microsecond=0)
    if u == "minute":
        return t.replace(second=0, microsecond=0)
    if u == "hour":
        return t.replace(minute=0, second=0, microsecond=0)
    d = datetime(t.year, t.month, t.day)
    if u == "day":
        return d
    if u == "week":
        return d - timedelta(days=(d.isoweekday() % 7))
    if u == "month":
        return d.replace(day=1)
    if u == "year":
        return d.replace(month=1, day=1)
    raise ValueError(u)


def step(u, b, k):
    if u == "second":
        return b + timedelta(seconds=k)
    if u == "minute":
        return b + timedelta(minutes=k)
    if u == "hour":
        return b + timedelta(hours=k)
    if u == "day":
        return b + timedelta(days=k)
    if u == "week":
        return b + timedelta(weeks=k)
    if u == "month":
        m = b.year * 12 + b.month - 1 + k
        return b.replace(year=m // 12, month=m % 12 + 1)
    if u == "year":
        return b.replace(year=b.year + k)
    raise ValueError(u)


def ceil(u, t):
    f = floor(u, t)
    return f if f == t else step(u, f, 1)


def round_(u, t):
    f = floor(u, t)
    c = step(u, f, 1)
    return f if t - f < c - t else c


def number(u, b):
    if u == "second":
        return b.second
    if u == "minute":
        return b.minute
    if u == "hour":
        return b.hour
    if u == "day":
        return b.day - 1
    if u == "month":
        return b.month - 1
    if u == "year":
        return b.year
    raise ValueError(u)


def boundaries(u, t0, t1):
    """All boundaries of unit u in [t0, t1), increasing."""
    out = []
    b = ceil(u, t0)
    while b < t1:
        out.append(b)
        b = step(u, b, 1)
    return out


def is_boundary(u, t):
    return floor(u, t) == t


def days_in_month(y, m):
    return calendar.monthrange(y, m)[1]
