"""Non-vacuity evidence: which of a property's anchor lines (properties.jsonl, anchors.mechanism[].where) the
exploration actually executed.  Uses sys.monitoring LINE events that disable themselves after the first hit of a
location, so the cost is a one-off warm-up.  Anchor line numbers refer to the pinned commit; they are translated to
the current tree through `git diff -U0 <pinned> -- file` (fix commits shifted some lines)."""
import json
import os
import re
import subprocess
import sys

VERIF = os.path.dirname(os.path.dirname(os.path.abspath(__file__)))
PINNED = "5c6fa44"
TOOL = 3  # a free sys.monitoring tool id
_hits = set()
_files = {}


def anchor_ranges(pid):
    """-> list of (where_text, file, lo, hi) in pinned-commit line numbers."""
    out = []
    for line in open(os.path.join(VERIF, "properties.jsonl")):
        p = json.loads(line)
        if p["id"] != pid:
            continue
        for m in p["anchors"].get("mechanism", []):
            where = m.get("where", "")
            cur = None
            for tok in re.split(r"[;,]\s*", where):
                mm = re.match(r"\s*(labella/\w+\.py):(\d+)(?:-(\d+))?", tok)
                if mm:
                    cur = mm.group(1)
                    out.append((where, cur, int(mm.group(2)), int(mm.group(3) or mm.group(2))))
                    continue
                mm = re.match(r"\s*(\d+)-(\d+)", tok)
                if mm and cur:
                    out.append((where, cur, int(mm.group(1)), int(mm.group(2))))
    return out


def line_map(repo, path):
    """old line -> new line for one file (identity when git or the pinned commit is unavailable)."""
    try:
        diff = subprocess.run(["git", "-C", repo, "diff", "-U0", PINNED, "--", path], capture_output=True, text=True, timeout=30)
        if diff.returncode != 0:
            return lambda n: n
    except Exception:
        return lambda n: n
    hunks = [tuple(int(x) if x else 1 for x in h) for h in
             re.findall(r"^@@ -(\d+)(?:,(\d+))? \+(\d+)(?:,(\d+))? @@", diff.stdout, re.M)]
    hunks = []
    for m in re.finditer(r"^@@ -(\d+)(?:,(\d+))? \+(\d+)(?:,(\d+))? @@", diff.stdout, re.M):
        o, oc, n, nc = int(m.group(1)), m.group(2), int(m.group(3)), m.group(4)
        hunks.append((o, 1 if oc is None else int(oc), n, 1 if nc is None else int(nc)))

    def f(line):
        shift = 0
        for o, oc, n, nc in hunks:
            if oc == 0:  # pure insertion after old line o
                if line > o:
                    shift += nc
            elif line >= o + oc:
                shift += nc - oc
            elif line >= o:  # inside a rewritten hunk: map to its start
                return n
        return line + shift
    return f


def start(repo):
    """Enable line recording for files under <repo>/labella (call once per worker)."""
    if not hasattr(sys, "monitoring"):
        return
    mon = sys.monitoring
    prefix = os.path.join(repo, "labella") + os.sep
    try:
        mon.use_tool_id(TOOL, "verif-anchors")
    except ValueError:
        return

    def on_line(code, line):
        fn = code.co_filename
        if fn.startswith(prefix):
            _hits.add((fn[len(repo) + 1:], line))
        return mon.DISABLE
    mon.register_callback(TOOL, mon.events.LINE, on_line)
    mon.set_events(TOOL, mon.events.LINE)


def hits():
    return set(_hits)


def report(pid, repo, all_hits):
    out = []
    maps = {}
    for where, path, lo, hi in anchor_ranges(pid):
        if path not in maps:
            maps[path] = line_map(repo, path)
        nlo, nhi = maps[path](lo), maps[path](hi)
        got = sorted(l for (f, l) in all_hits if f == path and nlo <= l <= nhi)
        out.append({"where": "%s:%d-%d" % (path, lo, hi), "current_lines": [nlo, nhi], "lines_executed": len(got),
                    "lines_in_range": nhi - nlo + 1})
    return out
