"""R-UNI: read TeX accent commands back as combining marks."""
import re
import unicodedata

ACCENTS = {"`": 0x0300, "'": 0x0301, "^": 0x0302, '"': 0x0308, "H": 0x030B, "~": 0x0303, "c": 0x0327, "k": 0x0328,
           "=": 0x0304, "b": 0x0331, ".": 0x0307, "d": 0x0323, "r": 0x030A, "u": 0x0306, "v": 0x030C}
CMD = re.compile(r"\\([`'^\"H~ck=b.druv])\{")


class Unbalanced(Exception):
    pass


def readback(tex):
    """-> (text, [(accent, argument_text), ...]).  Accent commands \\X{arg} become arg + mark."""
    out, cmds = [], []
    i, n = 0, len(tex)
    while i < n:
        m = CMD.match(tex, i)
        if not m:
            out.append(tex[i])
            i += 1
            continue
        depth, j = 1, m.end()
        while j < n and depth:
            if tex[j] == "{":
                depth += 1
            elif tex[j] == "}":
                depth -= 1
            j += 1
        if depth:
            raise Unbalanced(tex)
        inner, sub = readback(tex[m.end():j - 1])
        cmds.extend(sub)
        cmds.append((m.group(1), inner))
        out.append(inner + chr(ACCENTS[m.group(1)]))
        i = j
    return "".join(out), cmds


def tokens(tex):
    """Parse TeX text into a token list: plain characters and ("cmd", accent, [tokens of the argument])."""
    out = []
    i, n = 0, len(tex)
    while i < n:
        m = CMD.match(tex, i)
        if not m:
            out.append(tex[i])
            i += 1
            continue
        depth, j = 1, m.end()
        while j < n and depth:
            if tex[j] == "{":
                depth += 1
            elif tex[j] == "}":
                depth -= 1
            j += 1
        if depth:
            raise Unbalanced(tex)
        out.append(("cmd", m.group(1), tokens(tex[m.end():j - 1])))
        i = j
    return out


def align(toks, text, pos=0):
    """Match tokens against the input EXACTLY: a plain character must be the next input character itself; an
    accent command must stand for a precomposed character whose canonical decomposition is (its argument,
    its mark), or for its argument followed by the combining mark.  -> end position or None."""
    for t in toks:
        if isinstance(t, str):
            if pos >= len(text) or text[pos] != t:
                return None
            pos += 1
            continue
        _, acc, arg = t
        mark = ACCENTS[acc]
        ok = None
        if len(arg) == 1 and isinstance(arg[0], str) and pos < len(text):
            dec = unicodedata.decomposition(text[pos]).split()
            if len(dec) == 2 and not dec[0].startswith("<") and int(dec[0], 16) == ord(arg[0]) and int(dec[1], 16) == mark:
                ok = pos + 1
        if ok is None:
            p2 = align(arg, text, pos)
            if p2 is not None and p2 < len(text) and ord(text[p2]) == mark:
                ok = p2 + 1
        if ok is None:
            return None
        pos = ok
    return pos


def ambiguous(text):
    """The input itself spells an accent command: read-back is ambiguous by design."""
    return CMD.search(text) is not None


def nfd(s):
    return unicodedata.normalize("NFD", s)


def check_text(uni2tex, text):
    """-> (key, reason) | None ; also returns whether a command was produced via attribute."""
    try:
        tex = uni2tex(text)
    except Exception as e:
        return "EXC:" + type(e).__name__, "uni2tex(%r) raised %r" % (text, e)
    if not isinstance(tex, str):
        return "C19:not-a-string", "uni2tex(%r) returned %r" % (text, tex)
    if text.isascii():
        if tex != text:
            return "C19:ascii-changed", "uni2tex(%r) = %r" % (text, tex)
        return None
    if ambiguous(text):
        return None
    try:
        back, cmds = readback(tex)
    except Unbalanced:
        return "C19:unbalanced", "uni2tex(%r) = %r has an unterminated accent command" % (text, tex)
    if nfd(back) != nfd(text):
        return ("C19:not-equivalent", "uni2tex(%r) = %r reads back as %r, not canonically equivalent to the input"
                % (text, tex, back))
    # "nothing else changes": outside accent commands every character is the input character itself, and
    # every command stands for exactly the accented character (or base + mark) at that place
    if align(tokens(tex), text) != len(text):
        return ("C19:other-characters-changed", "uni2tex(%r) = %r: apart from accent commands the output is not the input "
                "character for character" % (text, tex))
    return None
