"""R-UNI: read TeX accent commands back as combining marks."""
import re
import unicodedata

ACCENTS = {"`": 0x0300, "'": 0x0301, "^": 0x0302, '"': 0x0308, "H": 0x030B, "~": 0x0303, "c": 0x0327, "k": 0x0328,
           "=": 0x0304, "b": 0x0331, ".": 0x0307, "d": 0x0323, "r": 0x030A, "u": 0x0306, "v": 0x030C}
CMD = re.compile(r"\\([`'^\"H~ck=b.druv])\{")


class Unbalanced(Exception):
    pass


def readback(tex):
    """-> (text, [(accent, argument_text), ...]).  Accent commands \\X{arg} become arg + mark."""
    out, cmds = [], []
    i, n = 0, len(tex)
    while i < n:
        m = CMD.match(tex, i)
        if not m:
            out.append(tex[i])
            i += 1
            continue
        depth, j = 1, m.end()
        while j < n and depth:
            if tex[j] == "{":
                depth += 1
            elif tex[j] == "}":
                depth -= 1
            j += 1
        if depth:
            raise Unbalanced(tex)
        inner, sub = readback(tex[m.end():j - 1])
        cmds.extend(sub)
        cmds.append((m.group(1), inner))
        out.append(inner + chr(ACCENTS[m.group(1)]))
        i = j
    return "".join(out), cmds


def ambiguous(text):
    """The input itself spells an accent command: read-back is ambiguous by design."""
    return CMD.search(text) is not None


def nfd(s):
    return unicodedata.normalize("NFD", s)


def check_text(uni2tex, text):
    """-> (key, reason) | None ; also returns whether a command was produced via attribute."""
    try:
        tex = uni2tex(text)
    except Exception as e:
        return "EXC:" + type(e).__name__, "uni2tex(%r) raised %r" % (text, e)
    if not isinstance(tex, str):
        return "C19:not-a-string", "uni2tex(%r) returned %r" % (text, tex)
    if text.isascii():
        if tex != text:
            return "C19:ascii-changed", "uni2tex(%r) = %r" % (text, tex)
        return None
    if ambiguous(text):
        return None
    try:
        back, cmds = readback(tex)
    except Unbalanced:
        return "C19:unbalanced", "uni2tex(%r) = %r has an unterminated accent command" % (text, tex)
    if nfd(back) != nfd(text):
        return ("C19:not-equivalent", "uni2tex(%r) = %r reads back as %r, not canonically equivalent to the input"
                % (text, tex, back))
    for acc, arg in cmds:
        if arg == "" or unicodedata.combining(arg[0]) and len(arg) == 1 and False:
            return "C19:empty-base", "uni2tex(%r) = %r applies an accent to nothing" % (text, tex)
    return None
