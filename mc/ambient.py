"""Process-wide settings an application is free to choose.  No property quantifies over them explicitly, but every
property is stated for "every input" whatever the process around the library has set: a result that changes with
one of these settings is a violation of the property for the inputs concerned.

Each setting is a context manager that establishes the setting and restores the previous state."""
import contextlib

KINDS = ("decimal-context", "debug-logging", "calendar-firstweekday")


@contextlib.contextmanager
def setting(kind):
    if kind == "decimal-context":
        import decimal
        saved = decimal.getcontext()
        decimal.setcontext(decimal.Context(prec=4, rounding=decimal.ROUND_DOWN))
        try:
            yield
        finally:
            decimal.setcontext(saved)
    elif kind == "debug-logging":
        import logging
        root = logging.getLogger()
        saved = (root.level, logging.root.manager.disable)
        handler = logging.NullHandler()
        root.addHandler(handler)
        root.setLevel(logging.DEBUG)
        logging.disable(logging.NOTSET)
        try:
            yield
        finally:
            root.removeHandler(handler)
            root.setLevel(saved[0])
            logging.disable(saved[1])
    elif kind == "calendar-firstweekday":
        # the calendar module's first day of the week (its documented default is Monday; some code sets Sunday, some
        # Saturday): a presentation setting of another module
        import calendar
        saved = calendar.firstweekday()
        calendar.setfirstweekday((saved + 1) % 7)
        try:
            yield
        finally:
            calendar.setfirstweekday(saved)
    else:
        raise ValueError(kind)
