"""Dataset alphabets, configuration menus and the C07 geometric oracle shared by
the drawing checks (C07, C08, C09, C11)."""
import copy
import datetime as _dt
import itertools
from fractions import Fraction as F

from mc import draw, uni
from mc.core import Hang, horizon

DIRECTIONS = ("up", "down", "left", "right")
LIN_TIMES = (0, 1, 1.5, 4, 9, 10)
DT_TIMES = (_dt.datetime(2020, 1, 3, 12, 0), _dt.datetime(2020, 1, 3, 18, 30, 15), _dt.date(2020, 1, 9),
            _dt.datetime(2020, 1, 20, 23, 59, 59, 999000), _dt.datetime(2020, 1, 31, 0, 0), _dt.datetime(2020, 2, 2, 6, 45))
WIDTHS = (20, 55)
TEXTS = (None, "a%b", "<&>\"é")
ENGINE = ({}, {"maxPos": 100}, {"maxPos": 70, "algorithm": "simple"}, {"algorithm": "none"},
          {"maxPos": 90, "stubWidth": 0, "lineSpacing": 0})
SIZES = (
    {"initialWidth": 400, "initialHeight": 400, "layerGap": 60},
    {"initialWidth": 137, "initialHeight": 211, "layerGap": 1, "labelPadding": {"left": 0, "right": 5, "top": 1, "bottom": 7},
     "margin": {"left": 7, "right": 30, "top": 11, "bottom": 5}},
    # long axes (used by the "long axis" slices only, not by the full product)
    {"initialWidth": 2000, "initialHeight": 1980, "layerGap": 60},
    {"initialWidth": 40000, "initialHeight": 40040, "layerGap": 60},
    {"initialWidth": 3000000, "initialHeight": 3000040, "layerGap": 60},
)
N_BASE_SIZES = 2
LONG_DOMAINS = {"lin": ([0, 1], [0, 10], [0, 7], [-1, 11]), "time": ([_dt.datetime(2019, 12, 30), _dt.datetime(2020, 2, 5, 12)],)}


def long_axis_cases(kind):
    """Datasets on axes of ~2000, ~40000 and ~3,000,000 units, explicit domains, all directions, ticks on."""
    times = LIN_TIMES if kind == "lin" else DT_TIMES
    lo, hi = (0, 1) if kind == "lin" else (None, None)
    for si in (2, 3, 4):
        for direction in DIRECTIONS:
            for di, dom in enumerate(LONG_DOMAINS[kind]):
                if kind == "lin":
                    span = dom[1] - dom[0]
                    data = [datum((dom[0] + span * fr, 40, x)) for fr, x in ((0.0, None), (0.31, "ab"), (0.5, None), (0.613579, None), (0.871234, "ab"), (1.0, "ab"))]
                else:
                    data = [datum((t, 40, x)) for t, x in zip(times[:4], (None, "ab", None, "ab"))]
                yield si, direction, list(dom), data
LIN_DOMAIN = [-1, 11]
DT_DOMAIN = [_dt.datetime(2019, 12, 30), _dt.datetime(2020, 2, 5, 12)]


def letters(kind, texts=TEXTS, widths=WIDTHS):
    times = LIN_TIMES if kind == "lin" else DT_TIMES
    return [(t, w, x) for t in times for w in widths for x in texts]


def datum(letter):
    t, w, x = letter
    d = {"time": t, "width": w}
    if x is not None:
        d["text"] = x
    return d


def sequences(alpha, nmax):
    """Multisets of letters, each also in reversed order when that differs."""
    for k in range(1, nmax + 1):
        for ms in itertools.combinations_with_replacement(range(len(alpha)), k):
            seq = [alpha[i] for i in ms]
            yield seq
            if seq != seq[::-1]:
                yield seq[::-1]
            if k >= 3 and len(set(ms)) > 1:
                yield seq[1:] + seq[:1]


def build_options(kind, direction, domain, engine, size, ticks, extra=None):
    from labella.scale import LinearScale, TimeScale
    opts = {"direction": direction, "labella": dict(engine), "showTicks": ticks}
    opts.update(copy.deepcopy(size))
    opts["scale"] = LinearScale() if kind == "lin" else TimeScale()
    if domain:
        opts["domain"] = list(domain) if isinstance(domain, (list, tuple)) else list(LIN_DOMAIN if kind == "lin" else DT_DOMAIN)
    if extra:
        opts.update(copy.deepcopy(extra))
    return opts


def run_export(backend, data, opts, budget=20.0):
    """-> (doc, timeline, parsed record) or raises; exceptions of the library propagate."""
    with horizon(budget):
        doc, tl = draw.export(backend, data, opts)
    return doc, tl, draw.parse(backend, doc)


def close(a, b, tol):
    return abs(a - b) <= tol


def check_geometry(R, backend, data, opts, scale, today=None):
    """The C07 oracle on one parsed export.  -> (key, reason) | None"""
    direction = opts.get("direction", "right")
    horiz = direction in draw.HORIZ
    L = draw.axis_length(opts)
    n = len(data)
    if not (len(R["dots"]) == len(R["links"]) == len(R["boxes"]) == n):
        return ("C07:count", "%d data but %d dots, %d links, %d boxes" % (n, len(R["dots"]), len(R["links"]), len(R["boxes"])))
    want_axis = (0.0, 0.0, float(L), 0.0) if horiz else (0.0, 0.0, 0.0, float(L))
    if tuple(R["axis"]) != want_axis:
        return "C07:axis", "axis line %r, expected %r" % (R["axis"], want_axis)
    # ---- the affine function of time
    try:
        dom = scale.domain()
    except Exception as e:
        return "EXC:" + type(e).__name__, "scale.domain() raised %r" % (e,)
    d0, d1 = draw.as_number(dom[0]), draw.as_number(dom[1])
    inst = [draw.to_instant(d["time"], today) for d in data]
    nums = [draw.as_number(t) for t in inst]
    if "domain" in opts and opts["domain"]:
        e0, e1 = [draw.as_number(draw.to_instant(x)) for x in opts["domain"]]
        if abs(d0 - e0) > 1 or abs(d1 - e1) > 1:
            return "C07:domain", "explicit domain %r but the scale reports %r" % (opts["domain"], dom)
    if d0 == d1:
        return "C07:domain", "degenerate axis domain %r" % (dom,)
    slack = 1 if isinstance(inst[0], _dt.datetime) else 4e-16 * max(abs(float(d0)), abs(float(d1)))  # 1 ms / float rounding
    if min(nums) < min(d0, d1) - slack or max(nums) > max(d0, d1) + slack:
        return "C07:domain", "axis domain %r does not cover the data (%r .. %r)" % (dom, float(min(nums)), float(max(nums)))
    if not d1 > d0:
        return "C07:domain", "axis domain %r is not increasing" % (dom,)

    def f(x):
        return F(L) * (x - d0) / (d1 - d0)
    ptol = 1e-5 if backend == "tex" else 1e-6
    # ---- ticks
    if opts.get("showTicks", True):
        try:
            tvals = list(scale.ticks())
            fmt = scale.tickFormat()
            if len(R["ticks"]) != len(tvals):
                # the statement does not fix how many ticks are drawn: accept the ticks of any requested count, with the
                # formatter that belongs to that count (linear scales format by count, time scales by value)
                for m in range(1, 101):
                    cand = list(scale.ticks(m))
                    if len(cand) == len(R["ticks"]):
                        tvals = cand
                        try:
                            fmt = scale.tickFormat(m)
                        except TypeError:
                            fmt = scale.tickFormat()
                        break
            ttexts = [fmt(t) for t in tvals]
        except Exception as e:
            return "EXC:" + type(e).__name__, "scale.ticks()/tickFormat() raised %r" % (e,)
        if len(R["ticks"]) != len(tvals):
            return "C07:tick-count", "%d ticks drawn; no requested count 1..100 gives that many (the default gives %d)" % (len(R["ticks"]), len(tvals))
        prev = None
        for tk, tv, tt in zip(R["ticks"], tvals, ttexts):
            want = float(f(draw.as_number(tv)))
            got = draw.along(direction, tk["pos"])
            if draw.across(direction, tk["pos"]) != 0:
                return "C07:tick-off-axis", "tick %r drawn at %r" % (tt, tk["pos"])
            ok = close(got, want, 1e-6 * max(1, L)) if backend == "svg" else (abs(got - want) < 1 + 1e-9 and abs(got) <= abs(want) + 1e-9)
            if not ok:
                return "C07:tick-position", "tick for %s drawn at %r, the time function gives %r" % (tv, got, want)
            if tk["text"] != tt:
                return "C07:tick-text", "tick for %s shows %r, formatted value is %r" % (tv, tk["text"], tt)
            if prev is not None and not got >= prev:
                return "C07:tick-order", "tick positions decrease: %r after %r" % (got, prev)
            prev = got
    elif R["ticks"]:
        return "C07:tick-count", "ticks drawn although showTicks is off"
    # ---- triples
    sgn = draw.sign_of(direction)
    gapL = opts.get("layerGap", 60)
    node_h = max(draw.box_sizes(direction, b)[1] for b in R["boxes"])
    gap = node_h + gapL
    drawn = []
    for j in range(n):
        dot, link, box = R["dots"][j], R["links"][j], R["boxes"][j]
        if draw.across(direction, dot["pos"]) != 0 or not (-1e-6 * max(1, L) <= draw.along(direction, dot["pos"]) <= L * (1 + 1e-6)):
            return "C07:dot-off-axis", "dot %d at %r is not on the axis line (length %r)" % (j, dot["pos"], L)
        segs = link["segs"]
        start = segs[0][1]
        if not (close(start[0], dot["pos"][0], ptol) and close(start[1], dot["pos"][1], ptol)):
            return "C07:link-start", "link %d starts at %r, its dot is at %r" % (j, start, dot["pos"])
        # The path is continuous by construction of the parsers (absolute commands / checked joins).  It must pass
        # through the datum's stubs layer by layer: in order, for every layer i below the label's layer k, a vertex on
        # the near edge of layer i (across = i*gap + layerGap) followed by a vertex on its far edge (across = (i+1)*gap)
        # at the same along-axis position (the stub), and finally a vertex on the near edge of layer k.  How the
        # renderer joins those vertices (curves, lines) is not constrained.
        verts = [start] + [s[1][-2:] for s in segs[1:]]
        facing = abs(draw.across(direction, draw.facing_mid(direction, box)))
        k = int(round((facing - gapL) / gap)) if gap else 0
        if k < 0 or abs(k * gap + gapL - facing) > 1 + 1e-9:
            return "C07:box-layer", "box %d faces the axis at distance %r, which is no layer offset (gap %r, layer gap %r)" % (j, facing, gap, gapL)
        vi = 1
        cur = start
        for i in range(k + 1):
            near = sgn * (i * gap + gapL)
            while vi < len(verts) and not close(draw.across(direction, verts[vi]), near, 1e-6):
                vi += 1
            if vi >= len(verts):
                return ("C07:link-layer", "link %d never reaches the near edge of layer %d (across-axis %r): vertices %r"
                        % (j, i, near, verts))
            cur = verts[vi]
            if i < k:
                far = sgn * ((i + 1) * gap)
                vj = vi + 1
                if vj >= len(verts) or not (close(draw.across(direction, verts[vj]), far, 1e-6)
                                            and close(draw.along(direction, verts[vj]), draw.along(direction, cur), 1e-6)):
                    return ("C07:link-stub", "link %d does not cross layer %d as a stub (from %r straight to across-axis %r): vertices %r"
                            % (j, i, cur, far, verts))
                vi = vj
                cur = verts[vi]
        if vi != len(verts) - 1:
            return "C07:link-end", "link %d continues beyond the near edge of its label's layer: vertices %r" % (j, verts)
        mid = draw.facing_mid(direction, box)
        if abs(cur[0] - mid[0]) > 1 + 1e-9 or abs(cur[1] - mid[1]) > 1 + 1e-9:
            return ("C07:link-end", "link %d ends at %r, the middle of the axis-facing edge of its box %r is %r"
                    % (j, cur, (box["origin"], box["w"], box["h"]), mid))
        text = box["text"]
        if backend == "tex" and text is not None:
            try:
                text = uni.readback(text)[0]
            except uni.Unbalanced:
                return "C07:text", "label %d text %r is not well-formed TeX" % (j, box["text"])
        a_sz, c_sz = draw.box_sizes(direction, box)
        drawn.append((draw.along(direction, dot["pos"]), a_sz, c_sz, None if text is None else uni.nfd(text)))
    exp = []
    line_h = draw.infer_line_height(direction, R["boxes"], data, opts)
    if not (0 < line_h < 200):
        return "C07:box-size", "implausible line height %r read off the first box" % (line_h,)
    for d, x in zip(data, nums):
        a_sz, c_sz = draw.expected_box_size(d, opts, line_h)
        tx = d.get("text")
        exp.append((float(f(x)), float(a_sz), float(c_sz), None if not tx else uni.nfd(tx)))
    key = lambda r: (r[3] is not None, r[3] or "", r[1], r[2], r[0])
    drawn.sort(key=key)
    exp.sort(key=key)
    for g, e in zip(drawn, exp):
        if g[3] != e[3] or g[1] != e[1] or g[2] != e[2] or not close(g[0], e[0], max(ptol, 1e-9 * L)):
            kind = "text" if g[3] != e[3] else ("box-size" if (g[1], g[2]) != (e[1], e[2]) else "dot-position")
            return ("C07:" + kind, "drawn (position, along size, across size, text) %r but the data give %r" % (drawn, exp))
    return None


def classify(R, direction, opts):
    """Non-triviality measures of one drawing."""
    layers = {round(abs(draw.across(direction, draw.facing_mid(direction, b)))) for b in R["boxes"]}
    displaced = any(abs(draw.along(direction, draw.facing_mid(direction, b)) - draw.along(direction, d["pos"])) > 1.5
                    for b, d in zip(R["boxes"], R["dots"]))
    return len(layers), displaced
