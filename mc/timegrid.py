"""Shared time-domain grids for C14 (time half), C16, C18."""
from datetime import datetime, timedelta

D = 864e5
SPANS_MS = [1, 2, 3, 5, 7, 8, 9, 10, 15, 40, 100, 999, 1000, 1500, 7000, 45000, 60000, 3e5, 3e6, 36e5, 3 * 36e5,
            11 * 36e5, D, 1.5 * D, 3 * D, 6 * D, 10 * D, 20 * D, 28 * D, 29 * D, 30 * D, 31 * D, 45 * D, 100 * D,
            200 * D, 366 * D, 800 * D, 2000 * D, 5000 * D, 20000 * D, 60000 * D, 91000 * D]
TOD1 = timedelta(hours=13, minutes=30, seconds=15, milliseconds=250)
TOD2 = timedelta(hours=23, minutes=59, seconds=59, milliseconds=999)
EARLY = [datetime(1900, 1, 1), datetime(1900, 2, 28, 12), datetime(1904, 2, 29), datetime(1950, 12, 31, 23, 59, 59, 999000)]


def month_end_days(years):
    out = []
    day = datetime(years[0], 1, 1)
    end = datetime(years[-1] + 1, 1, 1)
    while day < end:
        if day.day >= 27 or day.day <= 2 or day.isoweekday() == 7:
            out.append(day)
        day += timedelta(days=1)
    return out


def all_days(y0, y1):
    day = datetime(y0, 1, 1)
    end = datetime(y1 + 1, 1, 1)
    while day < end:
        yield day
        day += timedelta(days=1)


def seeded_start(seed):
    """One extra start instant chosen by the seed (always inside 1900-2200)."""
    base = datetime(1900, 1, 1) + timedelta(days=(seed * 7919) % 73000, hours=seed % 24, minutes=(seed * 13) % 60,
                                            seconds=(seed * 7) % 60, milliseconds=(seed * 37) % 1000)
    return base
