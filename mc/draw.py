"""R-SVG / R-TIKZ: parse both export formats into one geometry record, plus
the geometric model of a timeline drawing used by C07-C11."""
import copy
import datetime as _dt
import re
from fractions import Fraction as F
from xml.etree import ElementTree as ET

from mc import cal, uni


class ParseError(Exception):
    pass


NUM = r"-?\d+(?:\.\d+)?(?:[eE][-+]?\d+)?"
RGB = re.compile(r"rgb\((\d+), (\d+), (\d+)\)")


def _rgb(style, key):
    m = re.search(re.escape(key) + r"\s*:\s*rgb\((\d+), (\d+), (\d+)\)", style or "")
    if not m:
        raise ParseError("no %s colour in style %r" % (key, style))
    return tuple(int(x) for x in m.groups())


def _translate(s):
    m = re.fullmatch(r"translate\((%s), (%s)\)" % (NUM, NUM), s or "")
    if not m:
        raise ParseError("bad transform %r" % (s,))
    return float(m.group(1)), float(m.group(2))


# ------------------------------------------------------------------ SVG
def parse_svg(doc):
    try:
        root = ET.fromstring(doc)
    except ET.ParseError as e:
        raise ParseError("not well-formed XML: %s" % e)
    if root.tag != "svg":
        raise ParseError("root is %r" % root.tag)
    R = {"size": (float(root.get("width")), float(root.get("height"))), "ticks": [], "dots": [], "links": [], "boxes": []}
    outer = root.find("g")
    if outer is None:
        raise ParseError("no outer group")
    R["margin"] = _translate(outer.get("transform"))
    main = [g for g in outer.findall("g") if g.get("class") == "main-layer"]
    if len(main) != 1:
        raise ParseError("%d main layers" % len(main))
    main = main[0]
    R["main"] = _translate(main.get("transform"))
    lines = [l for g in main.findall("g") for l in g.findall("line") if l.get("class") == "timeline"]
    if len(lines) != 1:
        raise ParseError("%d axis lines" % len(lines))
    ax = lines[0]
    R["axis"] = (float(ax.get("x1", 0)), float(ax.get("y1", 0)), float(ax.get("x2", 0)), float(ax.get("y2", 0)))
    for g in main.findall("g"):
        c = g.get("class")
        if c == "axis-layer":
            for t in g.findall("g"):
                if t.get("class") != "tick":
                    raise ParseError("unexpected element in axis layer")
                tx, ty = _translate(t.get("transform"))
                txt = t.find("text")
                ln = t.find("line")
                R["ticks"].append({"pos": (tx, ty), "text": "" if txt is None or txt.text is None else txt.text,
                                   "mark": (float(ln.get("x2", 0)), float(ln.get("y2", 0))) if ln is not None else None})
        elif c == "dot-layer":
            for d in g.findall("circle"):
                R["dots"].append({"pos": (float(d.get("cx", 0)), float(d.get("cy", 0))), "fill": _rgb(d.get("style"), "fill"),
                                  "r": float(d.get("r"))})
        elif c == "link-layer":
            for p in g.findall("path"):
                R["links"].append({"segs": parse_path(p.get("d")), "stroke": _rgb(p.get("style"), "stroke")})
        elif c == "label-layer":
            for lg in g.findall("g"):
                if lg.get("class") != "label-g":
                    raise ParseError("unexpected element in label layer")
                # any SVG number is a legal coordinate (the library prints integers; 1.5e+06 would be just as valid)
                m = re.fullmatch(r"translate\((%s), (%s)\)" % (NUM, NUM), lg.get("transform") or "")
                if not m:
                    raise ParseError("label origin %r is not a pair of numbers" % lg.get("transform"))
                r = lg.find("rect")
                if r is None:
                    raise ParseError("label without rect")
                st = r.get("style")
                t = lg.find("text")
                R["boxes"].append({
                    "origin": tuple(int(v) if float(v) == int(float(v)) and "e" not in v.lower() and "." not in v else float(v)
                                    for v in (m.group(1), m.group(2))), "w": float(r.get("width")), "h": float(r.get("height")),
                    "fill": _rgb(st, "fill"), "border": _rgb(st, "stroke") if "stroke:" in st else None,
                    "text": None if t is None else (t.text or ""), "text_fill": None if t is None else _rgb(t.get("style"), "fill")})
    return R


def parse_path(d):
    toks = (d or "").split()
    segs, i = [], 0
    while i < len(toks):
        k = {"M": 2, "L": 2, "C": 6}.get(toks[i])
        if k is None or i + 1 + k > len(toks):
            raise ParseError("bad path %r" % d)
        try:
            segs.append((toks[i], [float(x) for x in toks[i + 1:i + 1 + k]]))
        except ValueError:
            raise ParseError("bad path %r" % d)
        i += 1 + k
    if not segs or segs[0][0] != "M":
        raise ParseError("path does not start with M: %r" % d)
    return segs


# ------------------------------------------------------------------ TikZ
def _hex(h):
    if not re.fullmatch(r"[0-9A-F]{6}", h):
        raise ParseError("bad HTML colour %r" % h)
    return (int(h[0:2], 16), int(h[2:4], 16), int(h[4:6], 16))


SHIFT = re.compile(r"\\begin\{scope\}\[shift=\{\((-?\d+), (-?\d+)\)\}\]")
P2 = r"\((%s), (%s)\)" % (NUM, NUM)


def parse_tikz(doc):
    lines = doc.split("\n")
    colors, texts = {}, {}
    R = {"ticks": [], "dots": [], "links": [], "boxes": []}
    i = 0
    n = len(lines)
    # ---- header
    while i < n and lines[i] != "\\begin{document}":
        ln = lines[i]
        m = re.fullmatch(r"\\definecolor\{([A-Za-z]+)\}\{HTML\}\{([^}]*)\}", ln)
        if m:
            if m.group(1) in colors:
                raise ParseError("colour %s defined twice" % m.group(1))
            colors[m.group(1)] = _hex(m.group(2))
        elif ln.startswith("\\def\\text"):
            m = re.fullmatch(r"\\def\\text([A-Z]+)\{(.*)\}", ln, re.S)
            if not m:
                raise ParseError("bad text definition %r" % ln)
            if m.group(1) in texts:
                raise ParseError("text macro %s defined twice" % m.group(1))
            texts[m.group(1)] = m.group(2)
        i += 1
    if i >= n:
        raise ParseError("no \\begin{document}")
    body = lines[i:]

    def section(marker):
        if marker not in body:
            return None
        j = body.index(marker) + 1
        if body[j] != "\\begin{scope}":
            raise ParseError("section %r does not open a scope" % marker)
        depth, k = 1, j + 1
        while k < len(body) and depth:
            if body[k].startswith("\\begin{scope}"):
                depth += 1
            elif body[k] == "\\end{scope}":
                depth -= 1
            k += 1
        return body[j + 1:k - 1]

    if "% shift for the margin" not in body or "% main layer" not in body:
        raise ParseError("margin/main scope missing")
    m = SHIFT.fullmatch(body[body.index("% shift for the margin") + 1])
    if not m:
        raise ParseError("bad margin shift")
    R["margin"] = (float(m.group(1)), float(m.group(2)))
    m = SHIFT.fullmatch(body[body.index("% main layer") + 1])
    if not m:
        raise ParseError("bad main shift")
    R["main"] = (float(m.group(1)), float(m.group(2)))
    ax = section("% axis")
    if ax is None or len(ax) != 1:
        raise ParseError("axis section")
    m = re.fullmatch(r"\\draw\[[^\]]*\] \(0, 0\) -- \((-?\d+), (-?\d+)\);", ax[0])
    if not m:
        raise ParseError("bad axis line %r" % ax[0])
    R["axis"] = (0.0, 0.0, float(m.group(1)), float(m.group(2)))
    tk = section("% axis layer")
    if tk is not None:
        k = 0
        while k < len(tk):
            m = SHIFT.fullmatch(tk[k])
            if not m or k + 3 >= len(tk):
                raise ParseError("bad tick scope %r" % tk[k])
            m2 = re.fullmatch(r"\\draw\[[^\]]*\] \(([^)]*)\) -- \(([^)]*)\)", tk[k + 1])
            m3 = re.fullmatch(r"node\[anchor=(north|south|east|west)\] \{(.*)\};", tk[k + 2], re.S)
            if not m2 or not m3 or tk[k + 3] != "\\end{scope}":
                raise ParseError("bad tick %r" % (tk[k:k + 4],))
            R["ticks"].append({"pos": (float(m.group(1)), float(m.group(2))), "text": m3.group(2),
                               "mark": (m2.group(1), m2.group(2)), "anchor": m3.group(1)})
            k += 4
    lk = section("% link layer")
    if lk is None:
        raise ParseError("no link layer")
    cur = None
    for ln in lk:
        m = re.fullmatch(r"\\draw\[color=linkColor([A-Z]+), [^\]]*\] %s \.\. controls" % P2, ln)
        if m:
            name = m.group(1)
            start = [float(m.group(2)), float(m.group(3))]
            if cur is None or cur["name"] != name:
                cur = {"name": name, "segs": [("M", start)], "stroke": colors.get("linkColor" + name)}
                R["links"].append(cur)
            elif cur["segs"][-1][1][-2:] != start:
                raise ParseError("link %s is not continuous" % name)
            cur["_pending"] = True
            continue
        m = re.fullmatch(r"%s and %s \.\. %s;" % (P2, P2, P2), ln)
        if m and cur is not None and cur.get("_pending"):
            cur["segs"].append(("C", [float(x) for x in m.groups()]))
            cur["_pending"] = False
            continue
        m = re.fullmatch(r"\\draw\[color=linkColor([A-Z]+), [^\]]*\] %s -- %s;" % (P2, P2), ln)
        if m:
            name = m.group(1)
            start = [float(m.group(2)), float(m.group(3))]
            if cur is None or cur["name"] != name:
                cur = {"name": name, "segs": [("M", start)], "stroke": colors.get("linkColor" + name)}
                R["links"].append(cur)
            elif cur["segs"][-1][1][-2:] != start:
                raise ParseError("link %s is not continuous" % name)
            cur["segs"].append(("L", [float(m.group(4)), float(m.group(5))]))
            continue
        raise ParseError("unparseable link line %r" % ln)
    for l in R["links"]:
        l.pop("_pending", None)
        if l["stroke"] is None:
            raise ParseError("link colour linkColor%s is not defined" % l["name"])
    lb = section("% label layer")
    if lb is None:
        raise ParseError("no label layer")
    k = 0
    while k < len(lb):
        m = SHIFT.fullmatch(lb[k])
        if not m or k + 3 >= len(lb):
            raise ParseError("bad label scope %r" % lb[k])
        head, rect = lb[k + 1], lb[k + 2]
        m1 = re.fullmatch(r"\\fill\[color=labelBgColor([A-Z]+), rounded corners=2pt\]", head)
        m1b = re.fullmatch(r"\\draw\[[^,\]]*, borderColor([A-Z]+), fill=labelBgColor([A-Z]+), rounded corners=2pt\]", head)
        m2 = re.fullmatch(r"\(0, 0\) rectangle \((%s), (%s)\) node\[midway, yshift=-\.75bp, ?anchor=center, text=labelTextColor([A-Z]+)\] "
                          r"\{\\strut (.*)\};" % (NUM, NUM), rect, re.S)
        if not (m1 or m1b) or not m2 or lb[k + 3] != "\\end{scope}":
            raise ParseError("bad label %r" % (lb[k:k + 4],))
        name = m1.group(1) if m1 else m1b.group(2)
        if m1b and m1b.group(1) != name or m2.group(3) != name:
            raise ParseError("label %s mixes colour names" % name)
        body_txt = m2.group(4)
        if body_txt == "":
            text = None
        elif body_txt == "\\text" + name:
            if name not in texts:
                raise ParseError("\\text%s is used but not defined" % name)
            text = texts[name]
        else:
            raise ParseError("label %s shows %r" % (name, body_txt))
        for cname in ("labelBgColor" + name, "labelTextColor" + name) + (("borderColor" + name,) if m1b else ()):
            if cname not in colors:
                raise ParseError("colour %s is not defined" % cname)
        R["boxes"].append({"origin": (int(m.group(1)), int(m.group(2))), "w": float(m2.group(1)), "h": float(m2.group(2)),
                           "fill": colors["labelBgColor" + name], "border": colors["borderColor" + name] if m1b else None,
                           "text": text, "text_fill": colors["labelTextColor" + name] if text is not None else None,
                           "name": name})
        k += 4
    dt = section("% dots")
    if dt is None:
        raise ParseError("no dots section")
    k = 0
    while k < len(dt):
        m1 = re.fullmatch(r"\\draw node \[circle, inner sep=0pt, minimum size=(%s)bp, " % NUM, dt[k])
        m2 = re.fullmatch(r"fill=dotColor([A-Z]+)\] at %s \{\};" % P2, dt[k + 1]) if k + 1 < len(dt) else None
        if not m1 or not m2:
            raise ParseError("bad dot %r" % (dt[k:k + 2],))
        if "dotColor" + m2.group(1) not in colors:
            raise ParseError("colour dotColor%s is not defined" % m2.group(1))
        R["dots"].append({"pos": (float(m2.group(2)), float(m2.group(3))), "fill": colors["dotColor" + m2.group(1)],
                          "r": float(m1.group(1)) / 2, "name": m2.group(1)})
        k += 2
    R["texts"] = texts
    R["colors"] = colors
    return R


# ------------------------------------------------------------------ running an export
def make_timeline(backend, data, options):
    from labella.timeline import TimelineSVG, TimelineTex
    cls = TimelineSVG if backend == "svg" else TimelineTex
    return cls(data, options) if options is not NOTHING else cls(data)


NOTHING = object()


def export(backend, data, options):
    """-> (document, timeline).  Data/options are deep-copied first: the
    caller's objects are the ground truth the oracle compares with."""
    tl = make_timeline(backend, copy.deepcopy(data), options)
    doc = tl.export()
    return doc, tl


def parse(backend, doc):
    if backend == "svg":
        return parse_svg(doc)
    if not isinstance(doc, str):
        raise ParseError("TikZ export is %r" % type(doc))
    return parse_tikz(doc)


# ------------------------------------------------------------------ the geometric model
HORIZ = ("up", "down")
DEFAULT_MARGIN = {"left": 20, "right": 20, "top": 20, "bottom": 20}
DEFAULT_PAD = {"left": 2, "right": 2, "top": 3, "bottom": 2}


def inner_dims(opts):
    mg = opts.get("margin", DEFAULT_MARGIN)
    return (opts.get("initialWidth", 400) - mg["left"] - mg["right"],
            opts.get("initialHeight", 400) - mg["top"] - mg["bottom"])


def axis_length(opts):
    iw, ih = inner_dims(opts)
    return iw if opts.get("direction", "right") in HORIZ else ih


def to_instant(t, today=None):
    """The datum's time exactly as supplied, as a number (linear) or datetime."""
    if isinstance(t, _dt.datetime):
        return t
    if isinstance(t, _dt.date):
        return _dt.datetime(t.year, t.month, t.day)
    if isinstance(t, _dt.time):
        return _dt.datetime.combine(today or _dt.date.today(), t)
    return t


def as_number(t):
    return F(cal.ms_of(t)) if isinstance(t, _dt.datetime) else F(t)


def expected_box_size(datum, opts, line_height=13.0):
    """(along-axis size, across-axis size) of the label box of one datum: the datum's size plus padding.  A datum with
    an explicit width supplies one dimension; the other is the library's line height (one value per drawing, see
    infer_line_height), which the checks do not pin to a particular number."""
    pad = opts.get("labelPadding", DEFAULT_PAD)
    w = datum.get("width", 50)
    has_text = bool(datum.get("text"))
    if opts.get("direction", "right") in HORIZ:
        return w + pad["left"] + pad["right"], line_height + pad["top"] + pad["bottom"]
    if has_text:
        return line_height + pad["left"] + pad["right"], w + pad["top"] + pad["bottom"]
    return w + pad["left"] + pad["right"], line_height + pad["top"] + pad["bottom"]


def infer_line_height(direction, boxes, data, opts):
    """The line height the drawing uses, read off the first box (the dimension its datum does not supply)."""
    pad = opts.get("labelPadding", DEFAULT_PAD)
    if not boxes:
        return 13.0
    a_sz, c_sz = box_sizes(direction, boxes[0])
    if direction in HORIZ:
        return c_sz - pad["top"] - pad["bottom"]
    # left/right: text labels are rotated; which dimension carries the line height depends on the datum, which
    # is matched by sorted order later - take the smallest candidate that is consistent for every box
    cands = {a_sz - pad["left"] - pad["right"], c_sz - pad["top"] - pad["bottom"]}
    for h in sorted(cands):
        exp = sorted(expected_box_size(d, opts, h) for d in data)
        got = sorted(box_sizes(direction, b) for b in boxes)
        if exp == got:
            return h
    return 13.0


def along(direction, p):
    return p[0] if direction in HORIZ else p[1]


def across(direction, p):
    return p[1] if direction in HORIZ else p[0]


def box_sizes(direction, b):
    """(along-axis size, across-axis size) of a drawn box."""
    return (b["w"], b["h"]) if direction in HORIZ else (b["h"], b["w"])


def box_extent(direction, b):
    """((along_lo, along_hi), (across_lo, across_hi)) of a drawn box."""
    x0, y0 = b["origin"]
    xs, ys = (x0, x0 + b["w"]), (y0, y0 + b["h"])
    return (xs, ys) if direction in HORIZ else (ys, xs)


def facing_mid(direction, b):
    """Middle of the axis-facing edge of a drawn box (x, y)."""
    x0, y0 = b["origin"]
    if direction == "right":
        return (x0, y0 + b["h"] / 2)
    if direction == "left":
        return (x0 + b["w"], y0 + b["h"] / 2)
    if direction == "down":
        return (x0 + b["w"] / 2, y0)
    return (x0 + b["w"] / 2, y0 + b["h"])


def sign_of(direction):
    return -1 if direction in ("up", "left") else 1
