"""Linear-domain grid shared by C13 and C14 (linear half)."""
MANT = (1, 1.5, 2, 2.5, 3, 3.5, 5, 7, 7.5, 9, 9.99)


def values(tier, seed=0):
    exps = range(-6, 10, 3) if tier == "quick" else range(-6, 10)
    vals = [0.0]
    for e in exps:
        for m in MANT:
            v = float("%re%d" % (m, e))
            vals += [v, -v]
    return vals


def seeded_values(seed):
    m = (1.1, 4.4, 6.25, 8.8, 1.23456, 3.14159)[seed % 6]
    vals = [0.0]
    for e in (-5, -2, 1, 4, 7):
        v = float("%re%d" % (m, e))
        vals += [v, -v]
    for mm in MANT[::3]:
        vals.append(float("%re%d" % (mm, (seed % 5) - 2)))
    return vals


def admissible(a, b):
    """Span conditions of C13/C14: 1e-9 <= span <= 1e12 and span >= 1e-6 * magnitude."""
    if a == b:
        return False
    span = abs(b - a)
    return 1e-9 <= span <= 1e12 and span >= 1e-6 * max(abs(a), abs(b))


def pairs(vals):
    for a in vals:
        for b in vals:
            if admissible(a, b):
                yield a, b
    # narrow domains: the span is only 1.3e-3 / 4.7e-5 / 2.3e-6 of the magnitude (tick steps far below the end points)
    for v in vals:
        for rel in (1.3e-3, 4.7e-5, 2.3e-6):
            w = v * (1 + rel)
            for a, b in ((v, w), (w, v)):
                if admissible(a, b):
                    yield a, b


MS = [None] + list(range(1, 101))
